#!/usr/bin/env python3
"""Confirm a seeded defect produced by a sub-agent and store it under /verif/seeded/<name>/.

  confirm_seeded.py <worktree> <mK> <name> <property> [--checks C01,C02] [--runs N]

Steps (all in the scratch worktree, never in /repo):
  1. demo:  `sh seeded/mK/run.sh clean` must exit 0, `sh seeded/mK/run.sh patched` must exit != 0;
  2. unit tests: libgalois + the library's unit tests are built from the PATCHED worktree and run with
     no argument and with "4"; exit statuses must equal those of the unchanged tree (cached);
  3. the patch, demo and meta.json are copied to /verif/seeded/<name>/ with a 'confirmed' record;
  4. optionally the patch is applied to /repo, the listed galsim checks are run, and /repo is restored;
     the result is recorded as 'caught_by'.
"""
import argparse, json, os, shutil, subprocess, sys, concurrent.futures as cf

TESTS = ["acquire", "barriers", "empty-member-lcgraph", "flatmap", "foreach", "forward-declare-graph", "gcollections", "graph", "graph-compile", "gslist",
         "hwtopo", "lc-adaptor", "lock", "mem", "morphgraph-removal", "move", "oneach", "pc", "reduction", "sort", "static", "traits",
         "twoleveliteratora", "worklists-compile", "floatingPointErrors", "getenv", "bandwidth"]
CXX = ["g++", "-std=c++17", "-O2", "-DGALOIS_USE_NUMA", "-DGALOIS_USE_SCHED_SETAFFINITY", "-w"]


def sh(cmd, cwd=None, timeout=1800):
    p = subprocess.run(cmd, shell=True, cwd=cwd, stdout=subprocess.PIPE, stderr=subprocess.STDOUT, text=True, timeout=timeout)
    return p.returncode, p.stdout


def build_and_test(wt, out):
    os.makedirs(out, exist_ok=True)
    inc = ["-I%s/libgalois/include" % wt, "-I/repo/_build/libgalois/include"]
    srcs = [os.path.join(wt, "libgalois/src", f) for f in sorted(os.listdir(os.path.join(wt, "libgalois/src"))) if f.endswith(".cpp") and f != "HWTopoDarwin.cpp"]
    srcs.append("/repo/_build/libgalois/Version.cpp")
    def cc(s):
        o = os.path.join(out, os.path.basename(s)[:-4] + ".o")
        return subprocess.run(CXX + inc + ["-c", s, "-o", o], stdout=subprocess.PIPE, stderr=subprocess.STDOUT, text=True).returncode, o
    with cf.ThreadPoolExecutor(14) as ex:
        res = list(ex.map(cc, srcs))
    if any(r for r, _ in res):
        return None
    objs = [o for _, o in res]
    results = {}
    def one(t):
        src = os.path.join(wt, "libgalois/test", t + ".cpp")
        exe = os.path.join(out, "t-" + t)
        p = subprocess.run(CXX + inc + [src] + objs + ["-lnuma", "-lpthread", "-o", exe], stdout=subprocess.PIPE, stderr=subprocess.STDOUT, text=True)
        if p.returncode:
            return t, "build-failed"
        r = []
        for a in ([], ["4"]):
            if t == "graph" and a:
                continue
            if t == "barriers" and not a:
                a = ["1024", "2"]
            try:
                r.append(subprocess.run([exe] + a, stdout=subprocess.DEVNULL, stderr=subprocess.DEVNULL, timeout=300).returncode)
            except subprocess.TimeoutExpired:
                r.append("timeout")
        return t, r
    with cf.ThreadPoolExecutor(8) as ex:
        for t, r in ex.map(one, TESTS):
            results[t] = r
    return results


def main():
    ap = argparse.ArgumentParser()
    ap.add_argument("wt"); ap.add_argument("m"); ap.add_argument("name"); ap.add_argument("prop")
    ap.add_argument("--clean-cmd", default=""); ap.add_argument("--patched-cmd", default=""); ap.add_argument("--both-cmd", default="")
    ap.add_argument("--checks", default=""); ap.add_argument("--runs", type=int, default=4000); ap.add_argument("--skip-unit", action="store_true")
    a = ap.parse_args()
    wt, mdir = a.wt, os.path.join(a.wt, "seeded", a.m)
    rec = {}
    sh("git checkout -- .", cwd=wt)
    runsh = os.path.join(mdir, "run.sh")
    if a.both_cmd:
        # one script that runs the demo on the unchanged tree, applies the patch, runs it again and prints "exit status N" after each
        import re
        rc_b, out_b = sh(a.both_cmd, cwd=wt, timeout=3600)
        sh("git checkout -- .", cwd=wt)
        st = re.findall(r"exit(?: status)?[:=]? *(\d+)", out_b)
        rc_c, rc_p = (int(st[0]), int(st[1])) if len(st) >= 2 else (None, None)
        half = out_b.find("exit status") + 20
        rec["demo"] = {"cmd": a.both_cmd, "clean_exit": rc_c, "patched_exit": rc_p, "clean_tail": out_b[max(0, half - 400):half], "patched_tail": out_b[-700:]}
        print("demo: clean rc=%s patched rc=%s" % (rc_c, rc_p))
    elif os.path.exists(runsh) or a.clean_cmd:
        rc_c, out_c = sh(a.clean_cmd or "bash seeded/%s/run.sh clean" % a.m, cwd=wt, timeout=3600)
        sh("git checkout -- .", cwd=wt)
        rc_p, out_p = sh(a.patched_cmd or "bash seeded/%s/run.sh patched" % a.m, cwd=wt, timeout=3600)
        sh("git checkout -- .", cwd=wt)
        rec["demo"] = {"clean_exit": rc_c, "patched_exit": rc_p, "clean_tail": out_c[-300:], "patched_tail": out_p[-600:]}
        print("demo: clean rc=%s patched rc=%s" % (rc_c, rc_p))
    else:
        rec["demo"] = {"note": "no run.sh"}
    if not a.skip_unit:
        base_cache = "/tmp/confirm-base.json"
        if os.path.exists(base_cache):
            base = json.load(open(base_cache))
        else:
            base = build_and_test(wt, "/tmp/build-confirm-base"); json.dump(base, open(base_cache, "w")); shutil.rmtree("/tmp/build-confirm-base", ignore_errors=True)
        rc, o = sh("git apply seeded/%s/patch.diff" % a.m, cwd=wt)
        if rc:
            print("patch does not apply:", o); sys.exit(1)
        patched = build_and_test(wt, "/tmp/build-confirm-p")
        sh("git checkout -- .", cwd=wt); shutil.rmtree("/tmp/build-confirm-p", ignore_errors=True)
        if patched is None:
            print("patched tree does not compile"); sys.exit(1)
        diff = {t: (base.get(t), patched.get(t)) for t in TESTS if base.get(t) != patched.get(t)}
        rec["unit_tests"] = {"tests": len(TESTS), "same_as_unchanged_tree": not diff, "differences": diff}
        print("unit tests: %d programs, differences vs unchanged tree: %s" % (len(TESTS), diff or "none"))
    dst = os.path.join("/verif/seeded", a.name)
    os.makedirs(dst, exist_ok=True)
    for f in os.listdir(mdir):
        if os.path.isfile(os.path.join(mdir, f)) and os.path.getsize(os.path.join(mdir, f)) < 200000:
            shutil.copy(os.path.join(mdir, f), dst)
    meta = {}
    try:
        meta = json.load(open(os.path.join(mdir, "meta.json")))
    except Exception:
        pass
    meta["property"] = a.prop
    meta["confirmed"] = rec
    if a.checks:
        caught = {}
        sh("git -C /repo diff --quiet")
        rc, o = sh("git -C /repo apply %s/patch.diff" % dst)
        if rc == 0:
            for cid in a.checks.split(","):
                rc2, o2 = sh("python3 runner/verif.py check %s --runs %d" % (cid, a.runs), cwd="/verif", timeout=3000)
                sigs = sorted(set(l.split("VIOLATION ", 1)[1].split(":", 1)[0] for l in o2.splitlines() if "] VIOLATION " in l))
                caught[cid] = {"exit": rc2, "signatures": sigs[:6]}
                print("check %s on the mutant: exit %d %s" % (cid, rc2, sigs[:3]))
            sh("git -C /repo checkout -- .")
        meta["caught_by"] = caught
    json.dump(meta, open(os.path.join(dst, "meta.json"), "w"), indent=1)
    print("stored in", dst)


if __name__ == "__main__":
    main()
