#!/usr/bin/env python3
"""Out-of-tree, content-hash driven build of instrumented Galois + harnesses.

Everything is compiled from /repo's *current working tree* with
-DGALOIS_VERIF -fsanitize=thread (no TSan runtime is linked: galsim supplies
the __tsan_* entry points).  An object is rebuilt iff the hash of its command
line, its source or any header named in its depfile changed.
"""
import fcntl, hashlib, json, os, re, subprocess, sys, concurrent.futures as cf

REPO = os.environ.get("VERIF_REPO", "/repo")
VERIF = os.path.dirname(os.path.dirname(os.path.abspath(__file__)))
BUILD = os.environ.get("VERIF_BUILD", os.path.join(VERIF, ".build"))
CXX = os.environ.get("VERIF_CXX", "g++")

TSAN = ["-fsanitize=thread", "--param", "tsan-distinguish-volatile=1", "--param", "tsan-instrument-func-entry-exit=0"]
COMMON = ["-std=c++17", "-O2", "-g1", "-w", "-fno-omit-frame-pointer", "-DGALOIS_VERIF",
          "-DGALOIS_USE_NUMA", "-DGALOIS_USE_SCHED_SETAFFINITY", "-DGALOIS_HAVE_PTHREAD"]
VARIANTS = {"a": [], "n": ["-DNDEBUG"]}   # a = assertions on, n = shipped (NDEBUG)

_hash_memo = {}


def fhash(path):
    try:
        st = os.stat(path)
    except OSError:
        return "missing"
    key = (path, st.st_mtime_ns, st.st_size)
    h = _hash_memo.get(key)
    if h is None:
        with open(path, "rb") as f:
            h = hashlib.sha1(f.read()).hexdigest()
        _hash_memo[key] = h
    return h


def parse_dep(dpath):
    try:
        txt = open(dpath).read()
    except OSError:
        return None
    txt = txt.replace("\\\n", " ")
    deps = []
    for line in txt.split("\n"):
        if ":" in line:
            deps += line.split(":", 1)[1].split()
    return [d for d in deps if not d.startswith("/usr/")]


def gen_dir(variant):
    d = os.path.join(BUILD, "gen")
    os.makedirs(os.path.join(d, "galois"), exist_ok=True)
    # config.h: the template has no cmake substitutions in this tree; copy verbatim
    src = os.path.join(REPO, "libgalois/include/galois/config.h.in")
    txt = open(src).read()
    txt = re.sub(r"#cmakedefine\s+(\w+).*", r"/* #undef \1 */", txt)
    out = os.path.join(d, "galois/config.h")
    if not os.path.exists(out) or open(out).read() != txt:
        open(out, "w").write(txt)
    vsrc = open(os.path.join(REPO, "libgalois/src/Version.cpp.in")).read()
    for k, v in {"GALOIS_VERSION": "6.0.0", "GALOIS_VERSION_MAJOR": "6", "GALOIS_VERSION_MINOR": "0",
                 "GALOIS_VERSION_PATCH": "0", "GALOIS_COPYRIGHT_YEAR": "2018"}.items():
        vsrc = vsrc.replace("@%s@" % k, v)
    vout = os.path.join(d, "Version.cpp")
    if not os.path.exists(vout) or open(vout).read() != vsrc:
        open(vout, "w").write(vsrc)
    return d


def includes(extra=()):
    g = os.path.join(BUILD, "gen")
    inc = ["-I" + os.path.join(VERIF, "engine"), "-I" + os.path.join(VERIF, "harness/common"),
           "-I" + os.path.join(REPO, "libgalois/include"), "-I" + g]
    for e in extra:
        inc.append("-I" + e)
    return inc


def compile_obj(src, obj, flags):
    """Compile src -> obj if stale. Returns (obj, rebuilt, err)."""
    cmd = [CXX] + flags + ["-MMD", "-MF", obj + ".d", "-c", src, "-o", obj]
    stamp = obj + ".hash"
    deps = parse_dep(obj + ".d")
    def sig(deps):
        h = hashlib.sha1()
        h.update(" ".join(cmd).encode())
        for d in sorted(set(deps + [src])):
            h.update(d.encode()); h.update(fhash(d).encode())
        return h.hexdigest()
    if deps is not None and os.path.exists(obj) and os.path.exists(stamp):
        if open(stamp).read() == sig(deps):
            return obj, False, None
    os.makedirs(os.path.dirname(obj), exist_ok=True)
    p = subprocess.run(cmd, stdout=subprocess.PIPE, stderr=subprocess.STDOUT, text=True)
    if p.returncode != 0:
        return obj, True, "compile failed: %s\n%s" % (" ".join(cmd), p.stdout[-6000:])
    deps = parse_dep(obj + ".d") or []
    open(stamp, "w").write(sig(deps))
    return obj, True, None


class Lock:
    def __enter__(self):
        os.makedirs(BUILD, exist_ok=True)
        self.f = open(os.path.join(BUILD, ".lock"), "w")
        fcntl.flock(self.f, fcntl.LOCK_EX)
        return self
    def __exit__(self, *a):
        fcntl.flock(self.f, fcntl.LOCK_UN); self.f.close()


def run_jobs(jobs, workers=16):
    errs = []; rebuilt = 0
    with cf.ThreadPoolExecutor(max_workers=workers) as ex:
        for obj, rb, err in ex.map(lambda j: compile_obj(*j), jobs):
            rebuilt += rb
            if err:
                errs.append(err)
    if errs:
        sys.stderr.write("\n".join(errs) + "\n")
        raise SystemExit(2)
    return rebuilt


DIST_INC = [os.path.join(VERIF, "engine/simmpi"), os.path.join(REPO, "libdist/include"), os.path.join(REPO, "libgluon/include"),
            os.path.join(REPO, "libcusp/include"), os.path.join(REPO, "lonestar/libdistbench/include")]
DIST_LIBS = {
    "libdist": ("libdist/src", {"NetworkLCI.cpp"}, []),
    "libgluon": ("libgluon/src", set(), []),
    "libdistbench": ("lonestar/libdistbench/src", set(), []),
}

LIB_SETS = {
    "libgalois": ("libgalois/src", lambda f: f.endswith(".cpp") and f != "HWTopoDarwin.cpp"),
    "libsupport": None,
}


def lib_jobs(variant, name="libgalois"):
    gen_dir(variant)
    flags = COMMON + TSAN + VARIANTS[variant] + includes()
    out = os.path.join(BUILD, variant, name)
    jobs = []
    if name == "libgalois":
        d = os.path.join(REPO, "libgalois/src")
        for f in sorted(os.listdir(d)):
            if f.endswith(".cpp") and f != "HWTopoDarwin.cpp":
                jobs.append((os.path.join(d, f), os.path.join(out, f[:-4] + ".o"), flags))
        jobs.append((os.path.join(BUILD, "gen/Version.cpp"), os.path.join(out, "Version.o"), flags))
    elif name in DIST_LIBS:
        d, skip, xflags = DIST_LIBS[name]
        fl = COMMON + TSAN + VARIANTS[variant] + includes(DIST_INC) + ["-DGALOIS_SUPPORT_ASYNC=1", "-isystem", "/usr/lib/llvm-14/include"] + xflags
        for f in sorted(os.listdir(os.path.join(REPO, d))):
            if f.endswith(".cpp") and f not in skip:
                jobs.append((os.path.join(REPO, d, f), os.path.join(out, f[:-4] + ".o"), fl))
    elif name == "simmpi":
        jobs.append((os.path.join(VERIF, "engine/simmpi.cpp"), os.path.join(BUILD, "engine/simmpi.o"),
                     ["-std=c++17", "-O2", "-g1", "-w", "-fno-omit-frame-pointer", "-I" + os.path.join(VERIF, "engine")]))
    return jobs


def engine_job():
    src = os.path.join(VERIF, "engine/galsim.cpp")
    obj = os.path.join(BUILD, "engine/galsim.o")
    flags = ["-std=c++17", "-O2", "-g1", "-w", "-fno-omit-frame-pointer", "-I" + os.path.join(VERIF, "engine"),
             "-I" + os.path.join(VERIF, "engine/simmpi")]
    return (src, obj, flags)


def link(exe, objs, extra=()):
    cmd = [CXX, "-o", exe] + objs + ["-Wl,--wrap=main", "-rdynamic", "-ldl", "-lpthread"] + list(extra)
    h = hashlib.sha1(" ".join(cmd).encode())
    for o in objs:
        h.update(fhash(o).encode())
    stamp = exe + ".hash"
    if os.path.exists(exe) and os.path.exists(stamp) and open(stamp).read() == h.hexdigest():
        return False
    p = subprocess.run(cmd, stdout=subprocess.PIPE, stderr=subprocess.STDOUT, text=True)
    if p.returncode != 0:
        sys.stderr.write("link failed: %s\n%s\n" % (" ".join(cmd[:6]) + " ...", p.stdout[-6000:]))
        raise SystemExit(2)
    open(stamp, "w").write(h.hexdigest())
    return True


def build_harness(name, variant="a", sources=None, extra_inc=(), extra_flags=(), extra_objs=(), extra_link=(), libs=("libgalois",)):
    """Build harness/<name>.cpp (+ sources) against instrumented Galois; returns exe path."""
    with Lock():
        jobs = [engine_job()]
        for l in libs:
            jobs += lib_jobs(variant, l)
        flags = COMMON + TSAN + VARIANTS[variant] + includes(extra_inc) + list(extra_flags)
        hsrcs = sources or [os.path.join(VERIF, "harness", name + ".cpp")]
        hobjs = []
        for s in hsrcs:
            o = os.path.join(BUILD, variant, "harness", name, os.path.basename(s).rsplit(".", 1)[0] + ".o")
            jobs.append((s, o, flags)); hobjs.append(o)
        run_jobs(jobs)
        objs = hobjs + [j[1] for j in jobs if j[1] not in hobjs] + list(extra_objs)
        exe = os.path.join(BUILD, variant, "bin", name)
        os.makedirs(os.path.dirname(exe), exist_ok=True)
        link(exe, objs, extra_link)
        return exe


def build_many(specs):
    """specs: list of dict(name, variant, sources, extra_inc, extra_flags, extra_objs, extra_link, libs).
    Compiles everything in one parallel batch, then links; returns exe paths in order."""
    with Lock():
        jobs = {}
        plans = []
        ej = engine_job(); jobs[ej[1]] = ej
        for sp in specs:
            name = sp["name"]; variant = sp.get("variant", "a")
            ljobs = []
            for l in sp.get("libs", ("libgalois",)):
                ljobs += lib_jobs(variant, l)
            flags = COMMON + TSAN + VARIANTS[variant] + includes(sp.get("extra_inc", ())) + list(sp.get("extra_flags", ()))
            hsrcs = sp.get("sources") or [os.path.join(VERIF, "harness", name + ".cpp")]
            hobjs = []
            for src in hsrcs:
                sflags = flags
                if isinstance(src, (list, tuple)):   # (path, [extra flags for this source only])
                    src, xf = src[0], list(src[1])
                    sflags = flags + xf
                o = os.path.join(BUILD, variant, "harness", name, os.path.basename(src).rsplit(".", 1)[0] + ".o")
                jobs[o] = (src, o, sflags); hobjs.append(o)
            for j in ljobs:
                jobs[j[1]] = j
            objs = hobjs + [ej[1]] + [j[1] for j in ljobs] + list(sp.get("extra_objs", ()))
            exe = os.path.join(BUILD, variant, "bin", name)
            plans.append((exe, objs, sp.get("extra_link", ())))
        run_jobs(list(jobs.values()))
        out = []
        for exe, objs, xl in plans:
            os.makedirs(os.path.dirname(exe), exist_ok=True)
            link(exe, objs, xl)
            out.append(exe)
        return out


if __name__ == "__main__":
    v = sys.argv[2] if len(sys.argv) > 2 else "a"
    print(build_harness(sys.argv[1], v))
