#!/usr/bin/env python3
"""Regenerates /verif/MANIFEST.json from props.py (single source of truth)."""
import json, os, sys
sys.path.insert(0, os.path.dirname(os.path.abspath(__file__)))
from props import PROPS, NOT_APPLICABLE
import jsonschema  # noqa: F401  (optional)

VERIF = os.path.dirname(os.path.dirname(os.path.abspath(__file__)))

TECH = "deterministic simulation with fault injection: seeded search over thread schedules and injected faults on real Galois code under a serialising scheduler (galsim); violations confirmed, ddmin-minimised and replayed from a replay file"


def main():
    checks = []
    for pid, p in PROPS.items():
        checks.append({
            "property_id": pid,
            "quick_cmd": "python3 runner/verif.py check %s --tier quick" % pid,
            "thorough_cmd": "python3 runner/verif.py check %s --tier thorough" % pid,
            "evidence_file": "/verif/evidence/%s.json" % pid,
            "replay_cmd_template": "python3 runner/verif.py replay {path}",
            "engine": "galsim",
            "level_claimed": {"category": "exploration", "text": p.get("level_text", ""), "design_ref": p.get("design_ref", "")},
            "level_note": p.get("level_note", ""),
            "technique": p.get("technique", TECH),
        })
    m = {
        "version": 1,
        "setup_cmd": "python3 runner/verif.py build --all",
        "hooks": {
            "guard": "GALOIS_VERIF",
            "enable": "-DGALOIS_VERIF on the out-of-tree compile lines of runner/build.py (together with -fsanitize=thread without the TSan runtime)",
            "baseline_off_cmd": "cmake --build /repo/_build && ctest --test-dir /repo/_build -j8 --timeout 900",
            "source_commits": ["18b5c78"],
            "add_only": True,
        },
        "engines": [{
            "name": "galsim", "path": "/verif/engine",
            "serves_properties": list(PROPS.keys()),
            "kind_free_text": "deterministic simulator: real Galois code on real parked OS threads, one runs at a time; seams = TSan-ABI atomics, pthread/clock/file/mmap/MPI symbol interposition, one guarded spin hook; seeded strategies (random walk, PCT, round-robin) + fault injection; record/replay of deviations from a canonical schedule; vector-clock happens-before checker",
        }],
        "checks": checks,
        "not_applicable": [{"property_id": k, "reason": v} for k, v in NOT_APPLICABLE.items()],
        "notes": open(os.path.join(VERIF, "runner", "manifest_notes.txt")).read().strip() if os.path.exists(os.path.join(VERIF, "runner", "manifest_notes.txt")) else "",
    }
    json.dump(m, open(os.path.join(VERIF, "MANIFEST.json"), "w"), indent=1)
    try:
        import jsonschema
        jsonschema.validate(m, json.load(open("/root/.vp/MANIFEST.schema.json")))
        print("MANIFEST.json valid; %d checks, %d not applicable" % (len(checks), len(NOT_APPLICABLE)))
    except ImportError:
        print("MANIFEST.json written (jsonschema not available to validate)")


if __name__ == "__main__":
    main()
