#!/bin/bash
# Debugging aid: run one seed over and over (several copies in parallel make the machine busy) with tracing on and stop
# at the first run whose event hash differs; the traces of the differing run are kept as <prefix>.bad.
#   stress_seed.sh <exe> <VSIM_PARAMS> <seed> <iterations> <expected_hash> <worker-id> <trace-dir>
E=$1; P=$2; S=$3; N=$4; X=$5; id=$6; D=$7
for i in $(seq 1 $N); do
  h=$(VSIM_PARAMS=$P VSIM_SEEDS=$S:1 VSIM_TIMEOUT=60 VSIM_TRACE=$D/w$id VSIM_WORKROOT=/verif/.work $E 2>/dev/null | python3 -c "
import sys,json
for l in sys.stdin:
    if l.startswith('{'):
        r=json.loads(l); print(r['hash'])")
  if [ "$h" != "$X" ]; then echo "MISMATCH worker $id iter $i hash $h"; for f in $D/w$id.*; do cp $f $f.bad; done; exit 1; fi
done
echo "worker $id ok"
