#!/usr/bin/env python3
"""Debugging aid: minimise an existing replay file further with a larger re-run budget.
   reminimise.py <replay.json> [budget]   -> writes <replay>.min.json"""
import json, sys, os
sys.path.insert(0, os.path.dirname(os.path.dirname(os.path.abspath(__file__))))
import verif
from props import PROPS
rp = json.load(open(sys.argv[1])); budget = int(sys.argv[2]) if len(sys.argv) > 2 else 2000
job = [j for j in PROPS[rp["property"]]["jobs"] if j["harness"] == rp["harness"] and j.get("variant", "a") == rp.get("variant", "a")][0]
exe = verif.build_job(job)
rec = {"seed": rp["seed"], "params": rp["params"], "devs": rp["devs"], "faults": rp["faults"]}
m, used = verif.minimise(exe, rec, rp["expect"]["signature"], rp.get("args", ()), 120, budget)
rp.update(devs=m["devs"], faults=m["faults"], schedule=verif.describe_schedule(m))
json.dump(rp, open(sys.argv[1] + ".min.json", "w"), indent=1)
print("devs %d faults %d after %d re-runs" % (len(m["devs"]), len(m["faults"]), used))
for l in rp["schedule"]: print("  " + l)
