#!/bin/bash
# usage: try_mutant.sh <patch.diff> <runs> <id> [<id> ...]   -- applies the patch to /repo, runs the quick checks, reverts
set -u
patch=$1; runs=$2; shift 2
cd /repo && git diff --quiet || { echo "repo dirty"; exit 3; }
git -C /repo apply "$patch" || { echo "patch does not apply"; exit 3; }
for id in "$@"; do
  echo "== $id"
  (cd /verif && timeout 900 python3 runner/verif.py check $id --runs $runs 2>&1 | grep -E "VIOLATION|tier=|KNOWN|UNREPRO|compile failed|error:" | cut -c1-330 | head -8)
done
git -C /repo checkout -- .
echo reverted
