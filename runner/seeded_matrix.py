#!/usr/bin/env python3
"""Run every stored seeded defect (seeded/<name>/patch.diff) against the quick check of its property (default budget) and
rewrite seeded/RESULTS.md.  Applies each patch to /repo and restores it afterwards: nothing else may use /repo meanwhile.
   seeded_matrix.py [name-prefix ...]"""
import json, os, subprocess, sys, time
V = "/verif"; S = os.path.join(V, "seeded")
EXTRA = {"C04-rearm-without-barrier": ["C01"], "C02-outedges-adaptor-no-acquire": ["C10"], "C04-idle-nonleader-skips-abort-queue": ["C01"], "C18-bitset-range-reset-off-by-one": ["C15"], "C15-pts-move-keeps-offset": ["C09"], "C16-reducible-init-active-only": ["C15"]}

def sh(cmd, timeout=2400):
    p = subprocess.run(cmd, shell=True, stdout=subprocess.PIPE, stderr=subprocess.STDOUT, text=True, timeout=timeout)
    return p.returncode, p.stdout

def main():
    names = sorted(d for d in os.listdir(S) if os.path.isdir(os.path.join(S, d)))
    if "--table-only" in sys.argv:
        names = []
    elif len(sys.argv) > 1:
        names = [n for n in names if any(n.startswith(p) for p in sys.argv[1:])]
    assert not names or sh("git -C /repo diff --quiet")[0] == 0, "repo dirty"
    for n in names:
        d = os.path.join(S, n); mp = os.path.join(d, "meta.json")
        meta = json.load(open(mp)) if os.path.exists(mp) else {}
        prop = meta.get("property") or n[:3]
        rc, o = sh("git -C /repo apply %s/patch.diff" % d)
        if rc:
            print(n, "patch does not apply:", o[-200:]); meta["caught_by"] = {"error": "patch does not apply to the current tree"}; json.dump(meta, open(mp, "w"), indent=1); continue
        caught = {}
        try:
            for cid in [prop] + EXTRA.get(n, []):
                t0 = time.time()
                rc2, o2 = sh("cd /verif && timeout 1500 python3 runner/verif.py check %s" % cid)
                sigs = sorted(set(l.split("VIOLATION ", 1)[1].split(":", 1)[0] for l in o2.splitlines() if "] VIOLATION " in l))
                caught[cid] = {"exit": rc2, "signatures": sigs[:6], "wall_s": int(time.time() - t0)}
                print("%-44s %s exit=%d %s" % (n, cid, rc2, sigs[:2]), flush=True)
        finally:
            sh("git -C /repo checkout -- .")
        meta["caught_by"] = caught
        json.dump(meta, open(mp, "w"), indent=1)
    # table
    rows = []
    for n in sorted(d for d in os.listdir(S) if os.path.isdir(os.path.join(S, d))):
        mp = os.path.join(S, n, "meta.json")
        if not os.path.exists(mp): continue
        m = json.load(open(mp)); cb = m.get("caught_by", {})
        cells = []
        for cid, r in cb.items():
            if not isinstance(r, dict): continue
            if r.get("exit") == 1:
                cells.append("%s: **caught** (%s)" % (cid, ", ".join(sorted(set(s.split("|")[1] for s in r.get("signatures", []) if "|" in s))[:3])))
            elif r.get("exit") in (2, 124) and r.get("signatures"):
                why = "exit 2: one further alarm of the batch did not reproduce from its record" if r.get("exit") == 2 else "the matrix's 25-minute limit ended the check while it was still minimising"
                cells.append("%s: **caught** (%s; %s)" % (cid, ", ".join(sorted(set(s.split("|")[1] for s in r.get("signatures", []) if "|" in s))[:3]), why))
            else:
                cells.append("%s: missed%s" % (cid, " (exit %s)" % r.get("exit") if r.get("exit") not in (0, None) else ""))
        change = (m.get("change") or m.get("summary") or m.get("what") or "")
        if isinstance(change, dict): change = json.dumps(change)
        rows.append("| %s | %s | %s | %s |" % (n, m.get("property", n[:3]), str(change).replace("|", "/").replace("\n", " ")[:150], "; ".join(cells)))
    head = open(os.path.join(S, "RESULTS.md")).read().split("| seeded defect |")[0] if os.path.exists(os.path.join(S, "RESULTS.md")) else "# Seeded defects\n\n"
    open(os.path.join(S, "RESULTS.md"), "w").write(head + "| seeded defect | property | change | quick checks (default budget) |\n|---|---|---|---|\n" + "\n".join(rows) + "\n")
    print("RESULTS.md rewritten: %d rows" % len(rows))

if __name__ == "__main__":
    main()
