"""Property table: which harness binaries decide which property, and the budgets."""

REAL_SHMEM = ["libgalois (all of src/*.cpp incl. ThreadPool, HWTopoLinux parser, barriers, locks, worklists, executors, allocators)"]
STUBS = ["OS scheduler", "futex/mutex/condvar/pthread_barrier", "clock", "/proc/cpuinfo + /proc/self/status (synthetic)", "mmap placement / huge pages", "libnuma (unavailable)"]


def comp(extra_real=(), extra_stub=()):
    return {"real": REAL_SHMEM + list(extra_real), "stub": STUBS + list(extra_stub)}


def tiers(q_runs, q_budget, t_runs, t_budget, **kw):
    q = dict(runs=q_runs, budget_s=q_budget); t = dict(runs=t_runs, budget_s=t_budget)
    q.update(kw); t.update(kw)
    return {"quick": q, "thorough": t}


def loop_jobs(sets, params=None, variants=("a", "n")):
    js = []
    for k in sets:
        for v in variants:
            j = dict(harness="c01_foreach_%d" % k, variant=v, weight=2 if v == "a" else 1,
                     build=dict(sources=["/verif/harness/c01_foreach.cpp"], extra_flags=["-DWLSET=%d" % k]))
            if params:
                j["params"] = dict(params)
            js.append(j)
    return js


LLVM_LINK = ["/usr/lib/llvm-14/lib/libLLVMSupport.a", "/usr/lib/llvm-14/lib/libLLVMDemangle.a", "-lz", "-ltinfo", "-lrt", "-lm"]
APPS = {1: ("bfs", "lonestar/analytics/cpu/bfs/bfs.cpp"), 2: ("sssp", "lonestar/analytics/cpu/sssp/SSSP.cpp"),
        3: ("cc", "lonestar/analytics/cpu/connected-components/ConnectedComponents.cpp"), 4: ("kcore", "lonestar/analytics/cpu/k-core/kcore.cpp"),
        5: ("tri", "lonestar/analytics/cpu/triangle-counting/Triangles.cpp"), 6: ("mis", "lonestar/analytics/cpu/independentset/IndependentSet.cpp"),
        7: ("boruvka", "lonestar/analytics/cpu/spanningtree/Boruvka.cpp")}


def app_jobs(ids, variant="n"):
    js = []
    for k in ids:
        name, src = APPS[k]
        js.append(dict(harness="c20_%s" % name, variant=variant, weight=2 if name == "boruvka" else 1,
                       build=dict(sources=[("/verif/harness/c20_apps.cpp", ["-DAPP=%d" % k]), ("/repo/" + src, ["-Dmain=app_main"]),
                                           "/repo/lonestar/liblonestar/src/BoilerPlate.cpp"],
                                  extra_inc=["/repo/lonestar/liblonestar/include", "/repo/" + src.rsplit("/", 1)[0]],
                                  extra_flags=["-isystem", "/usr/lib/llvm-14/include"], extra_link=LLVM_LINK)))
    return js


DIST_INC = ["/verif/engine/simmpi", "/repo/libdist/include", "/repo/libgluon/include", "/repo/libcusp/include", "/repo/lonestar/libdistbench/include"]


DAPPS = {1: ("bfs_push", "lonestar/analytics/distributed/bfs/bfs_push.cpp"), 2: ("bfs_pull", "lonestar/analytics/distributed/bfs/bfs_pull.cpp"),
         3: ("sssp_push", "lonestar/analytics/distributed/sssp/sssp_push.cpp"), 4: ("sssp_pull", "lonestar/analytics/distributed/sssp/sssp_pull.cpp"),
         5: ("cc_push", "lonestar/analytics/distributed/connected-components/cc_push.cpp"), 6: ("cc_pull", "lonestar/analytics/distributed/connected-components/cc_pull.cpp"),
         7: ("kcore_push", "lonestar/analytics/distributed/k-core/kcore_push.cpp"), 8: ("kcore_pull", "lonestar/analytics/distributed/k-core/kcore_pull.cpp")}


def dapp_jobs(ids, variant="n"):
    js = []
    for k in ids:
        name, src = DAPPS[k]
        js.append(dict(harness="c20d_%s" % name, variant=variant, weight=1,
                       build=dict(sources=[("/verif/harness/c20d_apps.cpp", ["-DAPP=%d" % k]),
                                           ("/repo/" + src, ["-Dmain=app_main", "-include", "/verif/harness/common/dist_app_shim.h"])],
                                  libs=["libgalois", "libdist", "libgluon", "libdistbench", "simmpi"],
                                  extra_inc=DIST_INC + ["/repo/" + src.rsplit("/", 1)[0]],
                                  extra_flags=["-DGALOIS_SUPPORT_ASYNC=1", "-isystem", "/usr/lib/llvm-14/include"], extra_link=LLVM_LINK)))
    return js


def dist_build(libs=("libgalois", "libdist", "simmpi"), **kw):
    b = dict(libs=list(libs), extra_inc=DIST_INC, extra_flags=["-DGALOIS_SUPPORT_ASYNC=1", "-isystem", "/usr/lib/llvm-14/include"])
    b.update(kw)
    return b


PROPS = {
    "C01": dict(
        jobs=loop_jobs([0, 1, 2, 3]),
        components=comp(), expected_probes=["attempts_aborted", "voluntary_aborts", "runs_with_aborts"],
        design_ref="3.1",
        level_text="Seeded exploration of for_each over all 18 shipped worklists (33 instantiations incl. chunk sizes, OBIM options, initial-range kinds, per-iteration allocator) x conflict detection on/off, "
                   "running generated operator programs (item forests with pushes before/after the last acquire, voluntary and conflict aborts) on 1-16 threads and synthetic 1-4 socket topologies. "
                   "Oracle: per-item ledger (exactly-once commit of the closure, nothing else runs, no push of an uncommitted attempt becomes work), loop return via deadlock / no-progress detection.",
        level_note="Sampling over seeds. Known findings (BulkSynchronous with conflict detection; voluntary abort with one active thread) are matched by exact signature only.",
        **tiers(12000, 150, 300000, 1800)),
    "C02": dict(
        jobs=loop_jobs([0, 1, 2], params={"focus": 2}),
        components=comp(), expected_probes=["attempts_aborted", "runs_with_aborts"],
        design_ref="3.2",
        level_text="Same simulated loops as C01 biased to overlapping neighbourhoods (2-6 lockables, re-acquisition, READ/WRITE/UNPROTECTED mixes, voluntary aborts, >= 2 threads). "
                   "Oracles: ownership stamps on every owned object inside the post-acquire window (double owner), stamps/locks left after the loop (leak), serial replay of the commit log "
                   "(serialisability), per-iteration allocator blocks disjoint and intact within an attempt, HB check on all object data (lockable hand-over).",
        level_note="Sampling over seeds; pre-emption happens at every atomic operation of Context.cpp / PtrLock, so the try-lock/set-owner and release windows are scheduling points.",
        **tiers(10000, 150, 250000, 1800)),
    "C07": dict(
        jobs=[dict(harness="c07_deterministic", variant="a", weight=2), dict(harness="c07_deterministic", variant="n", weight=1)],
        components=comp(), expected_probes=["executions"],
        design_ref="3.7",
        level_text="Each simulated run executes one generated cautious workload (non-commutative updates, dynamic work creation) 2-3 times with wl<Deterministic<>> at different thread counts "
                   "(always including 1) under the drawn interleavings and requires identical per-object commit sequences, final states and committed sets; variants: plain, det_id, local_state, "
                   "det_id+local_state+per_iter_alloc, det_parallel_break, det_id+fixed_neighborhood. C01 ledger and C02 stamps are checked in every execution.",
        level_note="Sampling over seeds. Loops below MinDelta=1280 items run as one window; the windowing code runs only in the thorough tier (probe windowed_execution).",
        **tiers(5000, 170, 60000, 2400, run_timeout_s=240)),
    "C08": dict(
        jobs=loop_jobs([3]),
        components=comp(), expected_probes=["attempts_aborted", "items_committed"],
        design_ref="3.8",
        level_text="Seeded exploration of BulkSynchronous (two containers) and OrderedByIntegerMetric with_barrier<true> (ascending, descending, monotonic) plus the non-barrier OBIM variants for conservation, "
                   "with monotone operator programs and sparse/dense priorities. Oracle: at every operator start no existing uncommitted item of an earlier level / more urgent priority (events ordered by the simulator's logical clock) + C01 ledger.",
        level_note="Sampling over seeds. BulkSynchronous with conflict detection is a known finding (aborted items are retried outside pop()).",
        **tiers(8000, 120, 200000, 1500)),
    "C03": dict(
        jobs=[dict(harness="c03_doall", variant="a", weight=2), dict(harness="c03_doall", variant="n", weight=1)],
        components=comp(), expected_probes=[],
        design_ref="3.3",
        level_text="Seeded exploration of sequences of 1-6 parallel regions with changing thread counts: do_all over vector / counting / list / set / forward_list / InsertBag (local iterators) / nested rows, "
                   "chunk sizes 1, 3, 32, 4096, stealing on/off, on_each, raw ThreadPool::run with barrier, sleeping and fast-mode wake-up, sizes 0..4100, on synthetic 1-4 socket machines. "
                   "Oracles: per-element counters (exactly once, HB-checked so concurrent double execution is also a race), started == finished == expected at return (join), "
                   "tid set and tid->thread mapping of on_each, no straggler from an earlier region (counters reset per region). Added later: 15 % of the runs reserve a pool thread with ThreadPool::runDedicated first (requests above the usable count must be clamped; oracle c03.active-threads); plain-access decision points inside the regions.",
        level_note="Sampling over seeds; steal paths are reached through chunk_size<1>/steal with uneven thread progress (stalls, PCT priorities).",
        **tiers(8000, 120, 200000, 1500)),
    "C04": dict(
        jobs=[dict(harness="c04_termination", variant="a", weight=2), dict(harness="c04_termination", variant="n", weight=1)],
        components=comp(), expected_probes=["loops"],
        design_ref="3.4",
        level_text="Seeded exploration of the ring detector (the system instance) and the tree detector (instantiated by the harness) driven by a synthetic work-moving model "
                   "(mailboxes, late transfers to threads that already reported idle, batches) over 1-4 consecutive loops with changing thread counts. Oracles: outstanding-work ledger at every "
                   "observation of globalTermination() (safety), announcement within 2*(3n+6) fair idle rounds after the last unit is consumed (bounded liveness), re-arming/reuse. Added later: 35 % of the loops (never the last) are abandoned at a drawn point, as the executor does on break, and the same detector is re-armed for the next loop.",
        level_note="Sampling over seeds; the liveness bound is counted in fair rounds (every thread reported idle once), which no schedule can inflate.",
        **tiers(30000, 150, 800000, 1800)),
    "C05": dict(
        jobs=[dict(harness="c05_barrier", variant="a", weight=2), dict(harness="c05_barrier", variant="n", weight=1)],
        components=comp(), expected_probes=["region_fastmode", "region_sleepmode"],
        design_ref="3.5",
        level_text="Seeded exploration of arrival / wake-up / re-entry interleavings of all six barrier implementations plus getBarrier(n) and reinit, on 1-16 threads "
                   "and synthetic 1-4 socket topologies, with spurious condvar wake-ups, multi-wake signals, spurious weak-CAS failures, late thread starts and stalls. "
                   "Oracles: phase separation by arrival stamps, arrival->departure happens-before on plain stamps, completion (deadlock / no-progress detection).",
        level_note="Sampling over seeds, not enumeration. The pthread variant runs Galois's wrapper over the engine's pthread_barrier stub.",
        **tiers(12000, 120, 300000, 1200)),
    "C06": dict(
        jobs=[dict(harness="c06_locks", variant="a", weight=3), dict(harness="c06_locks", variant="n", weight=2),
              dict(harness="c05_barrier", variant="n", weight=1)] + loop_jobs([1, 2], variants=("n",)),
        components=comp(), expected_probes=["region_fast", "region_sleep", "try_lock_failed", "ptrlock_cas_ok"],
        design_ref="3.6",
        level_text="Seeded exploration of lock/try_lock/unlock interleavings of SimpleLock, PaddedLock, PtrLock (all unlock variants, CAS, setValue) and ThreadRWlock with a "
                   "holder-count invariant, plus a vector-clock happens-before check (honouring each atomic operation's declared memory_order) of the promised edges: "
                   "unlock->lock, lockable hand-over between iterations, barrier arrival->departure, region entry/return in sleeping and fast mode, worklist push->pop.",
        level_note="The HB tracker decides edges for the memory orders the compiled code requests; it does not explore stale-value (store-buffer) executions of the atomics themselves.",
        **tiers(6000, 120, 100000, 1500)),
    "C15": dict(
        jobs=[dict(harness="c15_reductions", variant="a", weight=2), dict(harness="c15_reductions", variant="n", weight=1)],
        components=comp(), expected_probes=[],
        design_ref="3.15",
        level_text="Seeded exploration of generated update multisets with generated update->thread assignments applied inside on_each to GAccumulator (+=, -=, update; int/long/unsigned/double), "
                   "GReduceMax/Min (incl. all-negative int/double/float), logical and/or, make_reducible with a user merge and a move-only type, reset; concurrent fills of InsertBag and PerThread "
                   "vector/deque/list/set; DynamicBitSet concurrent set/reset plus range reset at generated alignments, bitwise ops, count, getOffsets; atomicMin/Max/Add/Subtract; concurrent union-find. "
                   "Oracle: sequential fold / std:: containers / serial union-find. Added later: observation under a changed active-thread count (size_all / empty_all of every per-thread container; do_all over the bag with fewer threads is a recorded known finding), swap / move construction of filled bags followed by new reducers and loops (the two-bag idiom), vectors of reducers that grow.",
        level_note="Sampling over seeds; the value-only parts (identities, masks) ride along on the simulated concurrent runs, the schedule-dependent parts (CAS loops under spurious weak-CAS failure, concurrent merges) are what the simulator adds.",
        **tiers(20000, 120, 500000, 1500)),
    "C16": dict(
        jobs=[dict(harness="c16_pstl", variant="a", weight=2), dict(harness="c16_pstl", variant="n", weight=1)],
        components=comp(), expected_probes=[],
        design_ref="3.16",
        level_text="Seeded exploration of ParallelSTL sort, partition, count_if, find_if, accumulate, map_reduce, partial_sum, destroy on generated sequences (empty, around the 1024 cut-off, "
                   "non-multiples of the block size, all-equal/sorted/reversed/few-keys, all-true/all-false predicates) on 1-16 threads; oracle: the std:: counterpart, partition-point validity, permutation checks. "
                   "The simulator explores which thread exhausts which side first in partition's block claiming and everything for_each/do_all do underneath. Added later: the arrays are under the happens-before check; plain-access decision points reach the algorithms' shared helper state; 40 % of the partition runs use 4-14 blocks on >= 3 threads.",
        level_note="Sampling over seeds; element accesses are plain (no decision points), so > 1024 elements stay cheap.",
        **tiers(24000, 150, 600000, 1800)),
    "C09": dict(
        jobs=[dict(harness="c09_alloc", variant="a", weight=3), dict(harness="c09_alloc", variant="n", weight=2),
              dict(harness="c01_foreach_0", variant="a", weight=1, params={"entry": 14},
                   build=dict(sources=["/verif/harness/c01_foreach.cpp"], extra_flags=["-DWLSET=0"])),
              dict(harness="c01_foreach_1", variant="n", weight=1, params={"entry": 12},
                   build=dict(sources=["/verif/harness/c01_foreach.cpp"], extra_flags=["-DWLSET=1"]))],
        components=comp(), expected_probes=["blocks_allocated"],
        design_ref="3.9",
        level_text="Seeded exploration of alloc/free histories spread over simulated threads (frees on other threads included) against FixedSizeHeap (17 size classes), Pow_2_BlockHeap "
                   "(class boundaries 2^i +-1, malloc backup beyond 64KB), VariableSizeHeap (both allocate overloads), the page pool (pre-alloc, remote frees), PerThreadStorage creation/destruction "
                   "from several threads (1B..1MB, constructed free-list/'change' scenario), largeMalloc*/LargeArray, and the per-iteration allocator inside for_each (pia instantiations of the loop harness). "
                   "Oracle: shadow interval map (non-null, size, alignment, disjoint from all live blocks) + canaries verified at free and at the end. Faults: huge-page refusal, spurious weak-CAS failure. Added later: random create/destroy/move histories of per-thread-storage objects over 13 sizes issued by changing threads (satisfiability model only decides which requests may be issued); plain-access decision points inside the allocator calls.",
        level_note="Sampling over seeds. Requests stay inside the 2MB per-thread-storage capacity model (exceeding it is a designed GALOIS_DIE). Page alignment is checked against the simulated mmap, which places 2MB-multiples on 2MB boundaries.",
        **tiers(16000, 120, 400000, 1500)),
    "C10": dict(
        jobs=[dict(harness="c10_morph", variant="a", weight=2), dict(harness="c10_morph", variant="n", weight=1)],
        components=comp(), expected_probes=["mutations"],
        design_ref="3.10",
        level_text="Seeded exploration of for_each over generated mutation items (addEdge with duplicate check, addMultiEdge, removeEdge, findEdge/findEdgeSortedByDst, node/edge data updates, "
                   "sortEdgesByDst, removeNode, addNode) on overlapping node sets for five MorphGraph flavours (directed, in/out, undirected, sorted neighbours, no-lockable with harness locks). "
                   "Oracle: serial replay of the commit log on a fresh graph of the same type -> identical structural dump and identical observed results; structural invariants "
                   "(reverse entries, shared data cell, no dangling edge, sortedness, iteration exactly once). Added later: lookups and an out_edges() neighbourhood operator that rely on the library's own acquisition (no harness pre-locking), clustered around node removals; plain-access decision points.",
        level_note="Sampling over seeds. Items are cautious at operator level (all touched nodes acquired first); removed nodes are never re-added.",
        **tiers(20000, 120, 400000, 1500)),
    "C11": dict(
        jobs=[dict(harness="c11_lcgraphs", variant="a", weight=2), dict(harness="c11_lcgraphs", variant="n", weight=1)],
        components=comp(extra_stub=["file system: real files in a per-run scratch directory"]), expected_probes=["edges_checked"],
        design_ref="3.11",
        level_text="Seeded exploration of the parallel graph builders: generated graphs (empty, isolated nodes, self loops, parallel edges, hubs, last node with/without edges) written by the harness's "
                   "own .gr writer (v1/v2, void/uint32/uint64 data) and loaded with 1-16 threads into LC_CSR (3 variants + array constructor), LC_CSR_CSC (constructIncomingEdges), LC_Linear, LC_InlineEdge, "
                   "LC_Linear with void data and lockable nodes, LC_Morph, LC_InOut over LC_CSR (two-file form with a harness-written transposed file and one-file symmetric form; in_edges, in-degree, sortAllInEdgesByDst); then findEdge, sortAllEdgesByDst, findEdgeSortedByDst, sortEdgesByEdgeData, transpose, per-thread local ranges. Oracle: exact comparison with the generator's edge list "
                   "(file order for CSR layouts, unique edge ids for layouts with free node order), views are permutations grouped correctly, local ranges partition [0,n). Added later: every mapping the graph code makes is under the happens-before check (unordered conflicting plain accesses, mixed atomic/plain races are reported whatever the result).",
        level_note="Sampling over seeds. Sequential lookups ride along as oracle reads; what the simulator adds are the interleavings of the per-thread construction, the fromFileInterleaved condvar hand-shake and the atomic slot claiming in transpose / in-edge construction.",
        **tiers(12000, 150, 300000, 1800)),
    "C12": dict(
        jobs=[dict(harness="c12_files", variant="a", weight=2), dict(harness="c12_files", variant="n", weight=1),
              dict(harness="c12_convert", variant="n", weight=2,
                   build=dict(sources=["/verif/harness/c12_convert.cpp", ("/repo/tools/graph-convert/graph-convert.cpp", ["-Dmain=app_main"])],
                              extra_flags=["-isystem", "/usr/lib/llvm-14/include"], extra_link=LLVM_LINK))],
        components=comp(extra_stub=["file layer: real files in a per-run scratch directory; write/pwrite/read/pread issued with shortened counts (short I/O faults)"]),
        expected_probes=["edges_checked", "edgelist2gr", "gr2cgr", "gr2sorteddstgr"],
        design_ref="3.12",
        level_text="Library half: FileGraphWriter + toFile under injected short writes must produce bytes identical to the harness's independent encoder; whole reads (fromFile / fromFileInterleaved), "
                   "partFromFile at generated split points, OfflineGraph (seek + read; sequentially and by all active threads at once on one object), BufferedGraph partial loads and OfflineGraphWriter are compared with the generator's edge list through an independent decoder, "
                   "for format versions 1 and 2, edge data widths 0/4/8, odd and even edge counts, under injected short reads. "
                   "Tool half: the real graph-convert (its main() renamed) runs one conversion per simulated run with short reads/writes injected into its file I/O: edgelist2gr, csv2gr, dimacs2gr, mtx2gr "
                   "(generated text with comments, blank lines, CR/LF, surplus columns, id gaps and shifts, shuffled line order, negative int32 weights), gr2edgelist, gr2edgelist1ind, gr2dimacs, gr2mtx, gr2adjacencylist "
                   "(output parsed by the harness), and gr2tgr, gr2sgr, gr2cgr, gr2sorteddstgr, gr2sortedweightgr, gr2randomweightgr, gr2randgr (through the permutation file), gr2ringgr, gr2linegr, gr2biggr "
                   "on version-1 and version-2 inputs with void/uint32/int32/int64/uint64 edge data; node count, per-node edge multisets with weights, sortedness, weight ranges and byte order are compared with the model.",
        level_note="The conversion logic itself is a function of the input file; it is decided here only as a by-product of running the tool under injected short I/O (DESIGN 3.12). Not covered: float edge types, "
                   "pbbs/rmat/metis/totem/neo4j/bsml/svmlight/petsc/nodelist formats, the partitioning, tree, degree-sorting and low-degree conversions, graph-convert-huge, graph-remap, dist-graph-convert. BufferedGraph is exercised for version 1 only (documented limit).",
        **tiers(15000, 120, 300000, 1500)),
    "C20": dict(
        jobs=[dict(j, weight=j["weight"] * 60) for j in app_jobs([1, 2, 3, 4, 5, 6, 7])] + dapp_jobs([1, 2, 3, 4, 5, 6, 7, 8]),
        components=comp(extra_real=["the unmodified application sources (their own main(), renamed), liblonestar BoilerPlate"], extra_stub=["LLVM command-line library runs uninstrumented", "MPI library (simulated), hosts = forked processes on one shared scheduler (distributed applications)"]),
        expected_probes=["app_runs", "dist_app_runs"],
        design_ref="3.20",
        level_text="Shared memory: the real Lonestar executables (bfs, sssp, connected-components, k-core, triangle-counting, independent-set, Boruvka) run under the simulator with every -algo variant they offer, "
                   "1-16 threads and synthetic topologies, on generated small graphs (disconnected, hubs with degrees around the edge-tile sizes, zero/large weights, distinct-weight dense graphs, parallel edges and self loops where the application accepts them) written by the harness writer. "
                   "Oracle: the printed summary compared with independent references in the driver (Dijkstra/BFS, union-find, peeling, brute-force triangles, Kruskal, enumeration of maximal independent sets). "
                   "Distributed: the real D-Galois bfs_push, bfs_pull, sssp_push, sssp_pull, cc_push, cc_pull, kcore_push, kcore_pull (their own main(), CuSP partitioning, Gluon sync, buffered network, simulated MPI) on 1-4 simulated hosts x 1-3 threads, "
                   "all eleven partitioning policies, bulk-synchronous and bulk-asynchronous execution, under message delay / probe-miss / lazy-test / host-stall faults; every host writes its masters' values with the application's own -output option "
                   "and the union is compared node by node with Dijkstra / union-find / peeling references (about 1.5 % of the runs of a batch; they are two orders of magnitude slower).",
        level_note="Sampling over seeds and schedules. Not run: pagerank, matching, preflowpush, betweenness centrality, and the other distributed applications (pagerank, triangle counting, matrix completion, betweenness centrality). "
                   "The distributed applications are run without the statistics merge of DistMemSys's destructor (DESIGN section 9, last row). The applications' own verify steps stay on but are not the oracle.",
        **tiers(16000, 170, 400000, 2400, run_timeout_s=120)),
    "C17": dict(
        jobs=[dict(harness="c17_network", variant="a", weight=2, build=dist_build()), dict(harness="c17_network", variant="n", weight=1, build=dist_build())],
        components=dict(real=REAL_SHMEM + ["libdist: NetworkInterfaceBuffered (aggregation, splitting, communication thread), NetworkIOMPI, HostFence, HostBarrier, Serialize.h"],
                        stub=STUBS + ["MPI library (simulated: per-pair FIFO channels, delays, lazy Iprobe/Test, synchronous-send completion, collectives)", "hosts = forked processes on one shared scheduler"]),
        expected_probes=["messages_checked"],
        design_ref="3.17",
        level_text="1-4 simulated hosts with 1-3 sender threads each exchange generated streams of tagged messages (sizes 0 B .. several MB, dense around the 1400-byte aggregation threshold) whose payloads are "
                   "gSerialize'd typed values (POD and non-POD vectors, strings, pairs, gdeque, PODResizeableArray, DynamicBitSet, nested buffers, galois::Pair) over the real NetworkInterfaceBuffered + NetworkIOMPI, "
                   "with fenced phases (HostFence / HostBarrier). Oracle: exactly-once, per-stream FIFO, routing, deserialised values equal and all bytes consumed (at whatever alignment the aggregation schedule produced), "
                   "nothing of a phase arrives after its fence. Faults: message delay, lazy Iprobe/Test, host stalls, clock jumps (aggregation time-out), spurious weak-CAS failure.",
        level_note="Sampling over seeds. MPI itself is a stub that keeps the standard's guarantees (reliable, non-overtaking per pair); loss/duplication/corruption are not injected because the code makes no promise about them.",
        **tiers(1500, 110, 40000, 2400, run_timeout_s=300)),
    "C19": dict(
        jobs=[dict(harness="c18_gluon", variant="a", weight=2, build=dist_build(libs=("libgalois", "libdist", "libgluon", "simmpi")), params={"mode": 0}),
              dict(harness="c18_gluon", variant="n", weight=1, build=dist_build(libs=("libgalois", "libdist", "libgluon", "simmpi")), params={"mode": 0})],
        components=dict(real=REAL_SHMEM + ["libcusp: cuspPartitionGraph / NewDistGraphGeneric and all policies; BufferedGraph reader; libdist network"],
                        stub=STUBS + ["MPI library (simulated)", "hosts = forked processes on one shared scheduler"]),
        expected_probes=["hosts"],
        design_ref="3.19",
        level_text="The real CuSP partitioner runs on 1-4 simulated hosts x 1-3 threads for policies OEC, IEC (transpose input), HOVC, CVC, CVC column-flip, Ginger, Fennel, Sugar, OEC-symmetric and CVC with CSC output "
                   "on generated graphs (isolated nodes, hubs, self loops, parallel edges, fewer nodes than hosts). Every host dumps nodes, id maps, flags, edges and mirror lists into a side channel; the parent checks: "
                   "each input edge exactly once in the union, exactly one master per node and agreement of getHostID, L2G/G2L inverse, masters before mirrors, a proxy for every endpoint of a local edge, mirror lists equal to the "
                   "non-owned proxies grouped by owner, OEC/IEC promises. The simulator varies the arrival order of edge/metadata messages, host and communication-thread stalls, threads per host. Added later: the partitioner's own options (three master distributions with node/edge weights, cuspAsync, cuspStateRounds) are drawn per run.",
        level_note="Sampling over seeds; MPI is a stub that keeps the standard's guarantees. Master/mirror list agreement between peers is exercised through the Gluon exchange in the C18 check.",
        **tiers(800, 170, 20000, 2400, run_timeout_s=300)),
    "C18": dict(
        jobs=[dict(harness="c18_gluon", variant="a", weight=2, build=dist_build(libs=("libgalois", "libdist", "libgluon", "simmpi")), params={"mode": 1}),
              dict(harness="c18_gluon", variant="n", weight=1, build=dist_build(libs=("libgalois", "libdist", "libgluon", "simmpi")), params={"mode": 1})],
        components=dict(real=REAL_SHMEM + ["libgluon: GluonSubstrate::sync and its wire encodings; libcusp partitioner; libdist network"],
                        stub=STUBS + ["MPI library (simulated)", "hosts = forked processes on one shared scheduler"]),
        expected_probes=["sync_rounds"],
        design_ref="3.18",
        level_text="On CuSP-partitioned graphs (same policy/host matrix as C19) 1-4 sync rounds with generated write sets (densities 0-100% select the wire encoding), reducers min (with and without update bitset) and add, "
                   "write location Any and read locations Source/Destination/Any. Pre- and post-sync values of every proxy leave through the side channel; the parent requires every readable proxy (and the master) to hold exactly "
                   "the reduction of the master's previous value and all contributions.",
        level_note="Sampling over seeds. Write locations Source/Destination are exercised only through write-Any plans at this commit (eligibility is decided from the gathered edges on the read side).",
        **tiers(300, 170, 20000, 2400, run_timeout_s=300)),
}

ALL_IDS = ["C%02d" % i for i in range(1, 21)]

NOT_APPLICABLE = {
    "C13": "pure arithmetic functions of (sizes, weights, part index): no schedule, clock, I/O or fault for a simulator to control (DESIGN 3.13)",
    "C14": "single-threaded container conformance ('used from one thread'): no concurrency, time or I/O to simulate (DESIGN 3.14)",
}

for _id in ALL_IDS:
    if _id not in PROPS and _id not in NOT_APPLICABLE:
        NOT_APPLICABLE[_id] = "not claimed yet: its galsim check is designed (DESIGN.md section 3) but not built/validated at this commit"
