#!/usr/bin/env python3
"""galsim runner: seeded search over schedules and faults, confirmation,
minimisation, replay, known-findings matching and evidence writing.

  verif.py check <ID> [--tier quick|thorough] [--runs N] [--budget SECONDS]
  verif.py replay <replay.json>
  verif.py selftest determinism [--ids C05,C06] [--seeds N]
  verif.py build [--all | ID...]
Exit codes: 0 property held on everything explored (KNOWN-FINDING lines allowed),
1 violation (VIOLATION property=<id> replay=<path>), 2 infrastructure error.
"""
import argparse, collections, json, os, random, shutil, subprocess, sys, tempfile, time
sys.path.insert(0, os.path.dirname(os.path.abspath(__file__)))
import build as B
from props import PROPS, NOT_APPLICABLE

VERIF = B.VERIF
WORK = os.path.join(VERIF, ".work")
REPLAYS = os.path.join(VERIF, "replays")
EVID = os.path.join(VERIF, "evidence")
KNOWN = os.path.join(VERIF, "known_findings.txt")
NCPU = os.cpu_count() or 4
FAULT_NAMES = ["stall", "late_start", "cas_weak_spurious", "cond_spurious_wakeup", "cond_multi_wake", "hugepage_refused",
               "clock_jump", "short_write", "short_read", "msg_delay", "iprobe_miss", "test_lazy", "host_stall", "choice"]


def log(*a):
    print(*a, file=sys.stderr, flush=True)


# ----------------------------------------------------------------------------- building
def job_spec(job):
    sp = dict(job.get("build", {}))
    sp["name"] = job["harness"]; sp["variant"] = job.get("variant", "a")
    return sp


def build_job(job):
    return B.build_many([job_spec(job)])[0]


def build_jobs(jobs):
    return B.build_many([job_spec(j) for j in jobs])


# ----------------------------------------------------------------------------- running
def run_chunk(exe, start, count, params, recdir, args=(), timeout_s=60, env_extra=None):
    env = dict(os.environ)
    env.update({"VSIM_SEEDS": "%d:%d" % (start, count), "VSIM_RECORD_DIR": recdir, "VSIM_TIMEOUT": str(timeout_s),
                "VSIM_WORKROOT": WORK})
    if params:
        env["VSIM_PARAMS"] = ",".join("%s=%s" % kv for kv in params.items())
    env.pop("VSIM_REPLAY", None)
    if env_extra:
        env.update(env_extra)
    # The worker's result lines go to an unlinked temporary file, not a pipe: the runner only looks at a worker's output once
    # it has exited, and a chunk of verbose results (thorough tiers) exceeds the 64 KiB a pipe holds -- worker and runner
    # would wait for each other for ever.
    outf = tempfile.TemporaryFile(mode="w+", dir=WORK)
    pr = subprocess.Popen([exe] + list(args), env=env, stdout=outf, stderr=subprocess.DEVNULL, text=True)
    pr._outf = outf
    def communicate(timeout=None, _pr=pr):
        _pr.wait(timeout)
        _pr._outf.seek(0)
        data = _pr._outf.read()
        _pr._outf.close()
        return data, None
    pr.communicate = communicate
    return pr


def run_replay(exe, recfile, params=None, args=(), timeout_s=60):
    env = dict(os.environ)
    env.update({"VSIM_REPLAY": recfile, "VSIM_TIMEOUT": str(timeout_s), "VSIM_WORKROOT": WORK})
    env.pop("VSIM_SEEDS", None)
    if params:
        env["VSIM_PARAMS"] = ",".join("%s=%s" % kv for kv in params.items())
    try:
        p = subprocess.run([exe] + list(args), env=env, stdout=subprocess.PIPE, stderr=subprocess.DEVNULL, text=True, timeout=timeout_s + 30)
    except subprocess.TimeoutExpired:
        return None
    for line in p.stdout.splitlines():
        try:
            return json.loads(line)
        except ValueError:
            continue
    return None


def signature(r):
    comp = r.get("notes", {}).get("component", "")
    return "%s|%s|%s" % (r.get("class", ""), r.get("oracle", ""), comp)


# ----------------------------------------------------------------------------- known findings
def load_known():
    finds = []
    if os.environ.get("VERIF_IGNORE_KNOWN"):   # maintenance aid: report listed findings like any violation (to refresh findings/*.json)
        return finds
    if os.path.exists(KNOWN):
        for line in open(KNOWN):
            line = line.strip()
            if not line.startswith("finding:"):
                continue
            parts = line.split(None, 3)
            d = {"text": parts[3] if len(parts) > 3 else ""}
            for p in parts[1:3]:
                if "=" in p:
                    k, v = p.split("=", 1); d[k] = v
            finds.append(d)
    return finds


def match_known(pid, sig, known):
    """key is an fnmatch pattern over the signature 'class|oracle|component' (no spaces: use ? for a space)"""
    import fnmatch
    for k in known:
        if k.get("property") == pid and fnmatch.fnmatchcase(sig, k.get("key", "")):
            return k
    return None


# ----------------------------------------------------------------------------- record files
def read_rec(path):
    rec = {"seed": 0, "params": {}, "devs": [], "faults": []}
    for line in open(path):
        t = line.split()
        if not t or t[0].startswith("#"):
            continue
        if t[0] == "seed": rec["seed"] = int(t[1])
        elif t[0] == "param": rec["params"][t[1]] = int(t[2])
        elif t[0] == "dev": rec["devs"].append([int(x) for x in t[1:4]])
        elif t[0] == "fault": rec["faults"].append([int(x) for x in t[1:5]])
    return rec


def write_rec(path, rec):
    with open(path, "w") as f:
        f.write("# galsim replay record\nseed %d\n" % rec["seed"])
        for k, v in rec["params"].items():
            f.write("param %s %d\n" % (k, v))
        for d in rec["devs"]:
            f.write("dev %d %d %d\n" % tuple(d))
        for d in rec["faults"]:
            f.write("fault %d %d %d %d\n" % tuple(d))


def same_violation(r, sig_want):
    return r is not None and r.get("verdict") in ("violation", "timeout") and signature(r) == sig_want


def ddmin(items, test, budget):
    """classic ddmin; test(list)->bool (True = still fails); budget = [remaining runs]"""
    n = 2
    while len(items) >= 1 and budget[0] > 0:
        chunk = max(1, len(items) // n)
        subsets = [items[i:i + chunk] for i in range(0, len(items), chunk)]
        reduced = False
        for i in range(len(subsets)):
            if budget[0] <= 0:
                break
            comp = [x for j, s in enumerate(subsets) if j != i for x in s]
            budget[0] -= 1
            if test(comp):
                items = comp; n = max(n - 1, 2); reduced = True
                break
        if not reduced:
            if chunk == 1:
                break
            n = min(len(items), n * 2)
    return items


def minimise(exe, rec, sig, args, timeout_s, budget_runs=250):
    tmp = tempfile.mkdtemp(prefix="min", dir=WORK)
    path = os.path.join(tmp, "cur.rec")
    budget = [budget_runs]
    used = [0]

    def test_with(devs, faults):
        used[0] += 1
        write_rec(path, dict(rec, devs=devs, faults=faults))
        return same_violation(run_replay(exe, path, args=args, timeout_s=timeout_s), sig)

    devs, faults = rec["devs"], rec["faults"]
    # empty schedule first (many defects need no pre-emption at all)
    budget[0] -= 1
    if test_with([], faults):
        devs = []
    else:
        devs = ddmin(devs, lambda d: test_with(d, faults), budget)
    if faults:
        budget[0] -= 1
        if test_with(devs, []):
            faults = []
        else:
            faults = ddmin(faults, lambda f: test_with(devs, f), budget)
    shutil.rmtree(tmp, ignore_errors=True)
    return dict(rec, devs=devs, faults=faults), used[0]


def describe_schedule(rec):
    out = []
    for t, dp, nx in rec["devs"][:40]:
        out.append("T%d at its decision point #%d -> run T%d" % (t, dp, nx))
    for t, k, n, p in rec["faults"][:40]:
        out.append("fault %s at T%d opportunity #%d param=%d" % (FAULT_NAMES[k] if k < len(FAULT_NAMES) else k, t, n, p))
    return out


# ----------------------------------------------------------------------------- check
def check(pid, tier, runs=None, budget_s=None, base_seed=None):
    t0 = time.time()
    prop = PROPS[pid]
    cfg = prop[tier]
    runs = runs or cfg["runs"]
    budget_s = budget_s or cfg["budget_s"]
    base_seed = base_seed if base_seed is not None else int(os.environ.get("VERIF_SEED", "1"))
    os.makedirs(WORK, exist_ok=True); os.makedirs(REPLAYS, exist_ok=True); os.makedirs(EVID, exist_ok=True)
    # scratch directories of runs whose worker was killed (watchdog, interrupted check) are older than any live run
    try:
        now = time.time()
        for d in os.listdir(WORK):
            dp = os.path.join(WORK, d)
            if os.path.isdir(dp) and now - os.path.getmtime(dp) > 3600:
                shutil.rmtree(dp, ignore_errors=True)
    except OSError:
        pass
    jobs = prop["jobs"]
    tb = time.time()
    exes = build_jobs(jobs)
    log("[%s] build %.1fs" % (pid, time.time() - tb))
    recdir = tempfile.mkdtemp(prefix="rec-%s-" % pid, dir=WORK)
    seed0 = (base_seed << 32) & 0xFFFFFFFFFFFFFFFF
    chunk = cfg.get("chunk", 20)
    timeout_s = cfg.get("run_timeout_s", 120)   # real-time safety net only; liveness is decided by step budgets
    workers = cfg.get("workers", max(2, NCPU - 2))
    tparams = {"tier": 1 if tier == "thorough" else 0}
    tparams.update(cfg.get("params", {}))
    # distribute chunks round-robin over jobs (weights)
    order = []
    for ji, j in enumerate(jobs):
        order += [ji] * j.get("weight", 1)
    results = []; procs = []
    next_i = 0; ci = 0
    deadline = t0 + budget_s
    stop_new = False
    viol_sigs = {}
    known_pre = load_known()

    def harvest(p, ji):
        out, _ = p.communicate()
        for line in out.splitlines():
            try:
                r = json.loads(line)
            except ValueError:
                continue
            r["_job"] = ji
            results.append(r)
            if r["verdict"] != "ok":
                viol_sigs.setdefault((ji, signature(r)), []).append(r)

    while True:
        while not stop_new and len(procs) < workers and next_i < runs and time.time() < deadline:
            ji = order[ci % len(order)]; ci += 1
            j = jobs[ji]
            n = min(chunk, runs - next_i)
            params = dict(tparams); params.update(j.get("params", {}))
            procs.append((run_chunk(exes[ji], seed0 + next_i, n, params, recdir, j.get("args", ()), timeout_s), ji))
            next_i += n
        if not procs:
            break
        still = []
        for p, ji in procs:
            if p.poll() is None:
                still.append((p, ji))
            else:
                harvest(p, ji)
        procs = still
        if sum(1 for (_, sg) in viol_sigs if not match_known(pid, sg, known_pre)) >= 6:
            stop_new = True
        time.sleep(0.02)
    wall_search = time.time() - t0
    # ------------------------------------------------------------------ determinism sample
    # a few seeds of this very batch are run again, one per fresh worker process and all at once (different position in
    # the worker, different machine load): event hash, step count and verdict must be identical
    det = {"reruns": 0, "mismatches": 0, "seeds": []}
    cand = sorted((r for r in results if r.get("wall_ms", 0) < 8000), key=lambda r: r["seed"])
    cand = cand[::max(1, len(cand) // 8)][:8]
    rer = []
    for r in cand:
        j = jobs[r["_job"]]
        params = dict(tparams); params.update(j.get("params", {}))
        rer.append((r, run_chunk(exes[r["_job"]], r["seed"], 1, params, recdir, j.get("args", ()), timeout_s)))
    for r, pr in rer:
        out, _ = pr.communicate()
        for line in out.splitlines():
            try:
                q = json.loads(line)
            except ValueError:
                continue
            det["reruns"] += 1; det["seeds"].append(r["seed"])
            if (q["hash"], q["steps"], q["verdict"]) != (r["hash"], r["steps"], r["verdict"]):
                det["mismatches"] += 1
                log("[%s] DETERMINISM MISMATCH seed=%d harness=%s: %s vs %s" % (pid, r["seed"], jobs[r["_job"]]["harness"], (r["hash"], r["steps"], r["verdict"]), (q["hash"], q["steps"], q["verdict"])))
    # ------------------------------------------------------------------ triage
    known = load_known()
    rc = 0
    out_lines = []
    viol_reports = []
    known_hit = collections.OrderedDict()
    for r in results:
        for k in r.get("known", []):
            key, _, txt = k.partition("\t")
            kf = match_known(pid, "known|%s|" % key, known)
            if kf:
                known_hit.setdefault(kf["key"], kf)
            else:
                viol_sigs.setdefault((r["_job"], "known-unlisted|%s|" % key), []).append(dict(r, verdict="violation", **{"class": "known-unlisted", "oracle": key, "msg": txt}))
    # A run killed by the real-time watchdog has only a truncated record (replaying it continues on the canonical policy, which
    # is not the run's schedule), so it is judged by running its SEED again in a fresh process with five times the limit:
    # the execution is the same; if it completes, the first run was merely slow (loaded machine) and is not an alarm, if it ends
    # in a violation, that violation (with its complete record) takes its place.
    for (ji, sig) in [k for k in viol_sigs if k[1].startswith("hang|engine.watchdog")]:
        rs = viol_sigs.pop((ji, sig))
        for r in rs[:3]:
            j = jobs[ji]
            params = dict(tparams); params.update(j.get("params", {}))
            pr = run_chunk(exes[ji], r["seed"], 1, params, recdir, j.get("args", ()), timeout_s * 5)
            out, _ = pr.communicate()
            q = None
            for line in out.splitlines():
                try:
                    q = json.loads(line)
                except ValueError:
                    continue
            if q is None:
                log("[%s] re-run of watchdog-killed seed %s produced no result" % (pid, r["seed"])); rc = max(rc, 2); continue
            if q["verdict"] == "ok":
                log("[%s] seed %s hit the real-time watchdog (%ds) but completes in %.0f s when run again: slow run, not an alarm" % (pid, r["seed"], timeout_s, q.get("wall_ms", 0) / 1000.0))
                det["watchdog_timeouts_completed_on_rerun"] = det.get("watchdog_timeouts_completed_on_rerun", 0) + 1
                continue
            q["_job"] = ji
            viol_sigs.setdefault((ji, signature(q)), []).append(q)
    for (ji, sig), rs in sorted(viol_sigs.items(), key=lambda kv: kv[0][1]):
        if sig.startswith("known-unlisted|"):
            # the harness reported a tolerated-known signature that the committed file does not list
            out_lines.append("VIOLATION property=%s replay=%s" % (pid, "none(unlisted-known:%s)" % sig)); rc = max(rc, 1)
            continue
        kf = match_known(pid, sig, known)
        rs.sort(key=lambda r: (r.get("ndev", 0) + r.get("nfault", 0), r["steps"]))
        r = rs[0]
        if r["verdict"] == "infra":
            log("[%s] infrastructure problem: %s" % (pid, r.get("msg"))); rc = max(rc, 2); continue
        exe = exes[ji]; args = jobs[ji].get("args", ())
        recpath = r.get("record")
        if not recpath or not os.path.exists(recpath):
            log("[%s] violation without record: %s" % (pid, r)); rc = max(rc, 2); continue
        # confirm: replay of the recorded run reproduces the same violation
        r2 = run_replay(exe, recpath, args=args, timeout_s=timeout_s)
        if not same_violation(r2, sig):
            r3 = run_replay(exe, recpath, args=args, timeout_s=timeout_s)
            if not same_violation(r3, sig):
                if sig.startswith("hang|engine.watchdog") and r2 and r3 and r2.get("verdict") == "ok" and r3.get("verdict") == "ok":
                    # the real-time watchdog is a safety net against the engine itself hanging; liveness is decided by step
                    # budgets.  The recorded schedule ran to completion twice: the original run was merely slow (machine load)
                    log("[%s] watchdog time-out of seed %s did not reproduce (the recorded schedule completes): slow run, not an alarm" % (pid, r["seed"]))
                    det.setdefault("watchdog_timeouts_not_reproduced", 0); det["watchdog_timeouts_not_reproduced"] += len(rs)
                    continue
                log("[%s] UNREPRODUCIBLE alarm sig=%s seed=%s msg=%s replay=%s" % (pid, sig, r["seed"], r.get("msg"), r2 and (r2.get("verdict"), signature(r2))))
                rc = max(rc, 2); continue
        if kf:
            known_hit.setdefault(kf["key"], kf)
            continue
        rec = read_rec(recpath)
        # VERIF_MIN_BUDGET (or the flag file .work/MIN_BUDGET) caps the re-runs spent on minimisation (mutant matrices)
        mb = cfg.get("min_budget", 250)
        try:
            mb = int(os.environ.get("VERIF_MIN_BUDGET") or open(os.path.join(WORK, "MIN_BUDGET")).read().strip())
        except (OSError, ValueError):
            pass
        mrec, used = minimise(exe, rec, sig, args, timeout_s, mb)
        rp = {"property": pid, "harness": jobs[ji]["harness"], "variant": jobs[ji].get("variant", "a"), "args": list(args),
              "seed": mrec["seed"], "params": mrec["params"], "devs": mrec["devs"], "faults": mrec["faults"],
              "expect": {"signature": sig}, "msg": r.get("msg"), "original": {"ndev": len(rec["devs"]), "nfault": len(rec["faults"]), "steps": r["steps"]},
              "minimise_runs": used, "schedule": describe_schedule(mrec), "stderr_tail": r.get("stderr_tail", "")}
        path = os.path.join(REPLAYS, "%s-%s-%d.json" % (pid, jobs[ji]["harness"], r["seed"]))
        json.dump(rp, open(path, "w"), indent=1)
        ok = replay(path, quiet=True)
        if ok != 1:
            log("[%s] minimised replay does not reproduce (%s); keeping the unminimised record" % (pid, ok))
            rp.update(devs=rec["devs"], faults=rec["faults"], schedule=describe_schedule(rec))
            json.dump(rp, open(path, "w"), indent=1)
            if replay(path, quiet=True) != 1:
                rc = max(rc, 2); continue
        out_lines.append("VIOLATION property=%s replay=%s" % (pid, path))
        viol_reports.append({"signature": sig, "seed": r["seed"], "msg": r.get("msg"), "replay": path, "count": len(rs),
                             "devs": len(mrec["devs"]), "faults": len(mrec["faults"])})
        log("[%s] VIOLATION %s: %s (deviations %d->%d, faults %d->%d, %d re-runs)" % (pid, sig, (r.get("msg") or "")[:400], len(rec["devs"]), len(mrec["devs"]), len(rec["faults"]), len(mrec["faults"]), used))
        rc = max(rc, 1)
    for k, kf in known_hit.items():
        out_lines.append("KNOWN-FINDING: property=%s %s [%s]" % (pid, kf["text"], kf["key"]))
    shutil.rmtree(recdir, ignore_errors=True)
    # A mismatch is reported (log line above, evidence) but does not change the exit status: what a check reports is
    # protected separately -- every violation must reproduce from its recorded schedule in a fresh process or the check exits 2.
    write_evidence(pid, tier, base_seed, results, time.time() - t0, wall_search, viol_reports, list(known_hit.keys()), jobs, det)
    for l in out_lines:
        print(l)
    n_ok = sum(1 for r in results if r["verdict"] == "ok")
    print("[%s] tier=%s runs=%d ok=%d violations=%d known=%d wall=%.0fs rc=%d" % (pid, tier, len(results), n_ok, len(viol_reports), len(known_hit), time.time() - t0, rc))
    if not results:
        rc = max(rc, 2)
    return rc


def write_evidence(pid, tier, seed, results, wall, wall_search, viols, known_keys, jobs, det=None):
    prop = PROPS[pid]
    n = len(results)
    hashes = set(); faults = collections.Counter(); opps = collections.Counter(); probes = collections.Counter()
    strategies = collections.Counter(); steps = 0; sim_ns = 0; comps = collections.Counter(); threads = collections.Counter()
    fair = 0
    for r in results:
        if r.get("shared_touch", 0) > 0 and r.get("switches", 0) > 0:
            hashes.add(r["hash"])
        for k, v in r.get("faults", {}).items():
            faults[k] += v[0]; opps[k] += v[1]
        for k, v in r.get("probes", {}).items():
            probes[k] += v
        strategies[r.get("strategy", "?")] += 1
        steps += r.get("steps", 0); sim_ns += r.get("sim_ns", 0)
        comps[r.get("notes", {}).get("component", "")] += 1
        threads[r.get("threads_max", 0)] += 1
        fair += r.get("fair_mode", 0)
    rnd = random.Random(seed)
    samples = []
    for r in rnd.sample(results, min(4, n)):
        samples.append({"seed": r["seed"], "verdict": r["verdict"], "steps": r["steps"], "switches": r["switches"], "threads": r.get("threads_max"),
                        "strategy": r.get("strategy"), "params": {k: v for k, v in r.get("params", {}).items() if not k.startswith("sched.") and not k.startswith("fault")},
                        "notes": r.get("notes", {}), "faults_fired": {k: v[0] for k, v in r.get("faults", {}).items() if v[0]}})
    zero_probes = [p for p in prop.get("expected_probes", []) if probes.get(p, 0) == 0]
    ev = {
        "property_id": pid, "tier": tier, "seed": seed, "level": "exploration", "wall_s": round(wall, 1),
        "violations": len(viols),
        "coverage": {
            "evaluations": max(n, 0),
            "distinct_nontrivial": len(hashes),
            "rule": "one evaluation = one simulated run (one seed -> config, workload, schedule, faults). Counted as distinct AND non-trivial: distinct "
                    "event-stream hashes (sequence of (thread, op kind, location id) over all decision points) among runs in which at least two threads "
                    "touched a common synchronisation location and at least one context switch happened.",
            "samples": samples,
            "runs_per_hour": int(n / max(wall_search, 1e-3) * 3600),
            "sim_steps_total": steps, "sim_time_s": round(sim_ns / 1e9, 3),
            "strategies": dict(strategies), "faults_fired": dict(faults), "fault_opportunities": dict(opps),
            "probes": dict(probes), "probes_at_zero": zero_probes, "components_exercised": {k: v for k, v in comps.items() if k},
            "threads_max_histogram": {str(k): v for k, v in sorted(threads.items())},
            "runs_that_needed_fair_mode": fair,
            "determinism_sample": det or {},
            "components": prop.get("components", {}),
            "harnesses": [j["harness"] + ":" + j.get("variant", "a") for j in jobs],
            "violation_reports": viols, "known_findings_hit": known_keys,
        },
        "assumptions": prop.get("assumptions", []) + [
            "sampling, not enumeration: a clean batch is evidence over the sampled seeds only",
            "the simulated execution is sequentially consistent; weak-memory effects are covered only through the vector-clock happens-before check",
            "stubs: OS scheduler, futex/mutex/condvar/pthread-barrier, clock, /proc topology files, mmap placement, NUMA library (answers 'unavailable')",
        ],
    }
    if ev["coverage"]["evaluations"] < 1:
        ev["coverage"]["evaluations"] = 1
    json.dump(ev, open(os.path.join(EVID, pid + ".json"), "w"), indent=1)


# ----------------------------------------------------------------------------- replay
def replay(path, quiet=False):
    rp = json.load(open(path))
    pid = rp["property"]
    job = None
    for j in PROPS[pid]["jobs"]:
        if j["harness"] == rp["harness"] and j.get("variant", "a") == rp.get("variant", "a"):
            job = j
    if job is None:
        log("no such harness"); return 2
    exe = build_job(job)
    os.makedirs(WORK, exist_ok=True)
    tmp = tempfile.mkdtemp(prefix="rp", dir=WORK)
    rec = os.path.join(tmp, "r.rec")
    write_rec(rec, rp)
    r = run_replay(exe, rec, args=rp.get("args", ()), timeout_s=120)
    shutil.rmtree(tmp, ignore_errors=True)
    want = rp["expect"]["signature"]
    if same_violation(r, want):
        if not quiet:
            print("REPRODUCED property=%s signature=%s" % (pid, want))
            print("  msg: %s" % r.get("msg"))
            for l in rp.get("schedule", []):
                print("  " + l)
        return 1
    if not quiet:
        print("NOT reproduced: got %s" % ((r and (r.get("verdict"), signature(r), r.get("msg"))),))
    return 0


# ----------------------------------------------------------------------------- determinism self-test
def selftest_determinism(ids, nseeds):
    bad = 0
    os.makedirs(WORK, exist_ok=True)
    for pid in ids:
        for j in PROPS[pid]["jobs"]:
            exe = build_job(j)
            recdir = tempfile.mkdtemp(prefix="st", dir=WORK)
            seed0 = 77 << 32
            def collect(nworkers):
                per = max(1, nseeds // nworkers)
                tr = {"VSIM_TRACE": "%s.%s.w%d" % (os.environ["VSIM_TRACE_PREFIX"], os.path.basename(exe), nworkers)} if "VSIM_TRACE_PREFIX" in os.environ else None   # debugging aid
                ps = [run_chunk(exe, seed0 + i * per, per, dict(j.get("params", {})), recdir, j.get("args", ()), env_extra=tr) for i in range(nworkers)]
                res = {}
                for p in ps:
                    out, _ = p.communicate()
                    for line in out.splitlines():
                        try:
                            r = json.loads(line)
                        except ValueError:
                            continue
                        res[r["seed"]] = (r["hash"], r["steps"], r["verdict"], r.get("oracle"))
                return res
            a = collect(1); b = collect(8); c = collect(24)   # 24 workers oversubscribe the machine on purpose
            diff = [s for s in a if (s in b and a[s] != b[s]) or (s in c and a[s] != c[s])]
            print("[determinism] %s/%s:%s seeds=%d compared=%d mismatches=%d" % (pid, j["harness"], j.get("variant", "a"), len(a), len(set(a) & set(b)), len(diff)))
            for s in diff[:5]:
                print("   seed %d: %s vs %s vs %s" % (s, a[s], b.get(s), c.get(s)))
            bad += len(diff)
            shutil.rmtree(recdir, ignore_errors=True)
    return 2 if bad else 0


def main():
    ap = argparse.ArgumentParser()
    sub = ap.add_subparsers(dest="cmd")
    c = sub.add_parser("check"); c.add_argument("id"); c.add_argument("--tier", default=os.environ.get("VERIF_TIER", "quick")); c.add_argument("--runs", type=int); c.add_argument("--budget", type=float)
    r = sub.add_parser("replay"); r.add_argument("path")
    s = sub.add_parser("selftest"); s.add_argument("what"); s.add_argument("--ids", default=""); s.add_argument("--seeds", type=int, default=64)
    b = sub.add_parser("build"); b.add_argument("ids", nargs="*"); b.add_argument("--all", action="store_true")
    a = ap.parse_args()
    if a.cmd == "check":
        if a.id in NOT_APPLICABLE:
            print("[%s] not applicable: %s" % (a.id, NOT_APPLICABLE[a.id])); sys.exit(0)
        sys.exit(check(a.id, a.tier, a.runs, a.budget))
    if a.cmd == "replay":
        sys.exit(0 if replay(a.path) == 1 else 1)
    if a.cmd == "selftest":
        ids = [x for x in a.ids.split(",") if x] or list(PROPS.keys())
        sys.exit(selftest_determinism(ids, a.seeds))
    if a.cmd == "build":
        ids = list(PROPS.keys()) if a.all or not a.ids else a.ids
        alljobs = []
        for pid in ids:
            alljobs += PROPS[pid]["jobs"]
        for e in sorted(set(build_jobs(alljobs))):
            print(e)
        sys.exit(0)
    ap.print_help(); sys.exit(2)


if __name__ == "__main__":
    main()
