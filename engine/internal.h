// galsim internals shared between galsim.cpp and simmpi.cpp
#ifndef GALSIM_INTERNAL_H
#define GALSIM_INTERNAL_H
#include "vsim.h"
#include <atomic>
#include <cstdint>
#include <cstddef>
#include <sys/types.h>

namespace gs {

enum St { FREE = 0, RUNNABLE, BLK_MUTEX, BLK_COND, BLK_JOIN, BLK_BARRIER, BLK_ONCE, BLK_MPI, BLK_WORLD, BLK_SLEEP, DONE };

constexpr int MAXT = 192, MAXH = 8;
constexpr int MAXDEV = 1 << 17, MAXFAULT = 1 << 15, MAXNOTE = 1 << 17, MAXPROBE = 96, MAXPARAM = 96;
constexpr int SPIN_K = 64;
constexpr int VF_CHOICE = VF_NKINDS;  // internal: recorded non-fault choice
constexpr int FK = VF_NKINDS + 2;

struct Th {
  std::atomic<int> go;
  int st, host, lid;
  uintptr_t waitobj;
  int spin, spinning, hook;
  int timedout;
  uint64_t ops;        // per-thread decision index
  uint64_t deadline;   // sim ns, for timed waits / sleeps (0 = none)
  uint64_t stall_until;
  uint64_t prio;
  uint64_t fcount[FK];
  uint64_t created_step;
  uintptr_t last_addr;         // address of the pending operation (set by pre)
  uintptr_t recent[64];        // recently read locations: a spin loop re-reads few locations, a scan does not
  int recent_pos;
  int plain_hold;              // harness bookkeeping section: no plain-access decision points for this thread
};
struct Dev { int32_t tid; int32_t next; uint64_t dp; };
struct FaultRec { int32_t tid; int32_t kind; uint64_t n; int64_t param; };
struct Param { char name[32]; long val; int overridden; };

enum Strategy { S_RANDOM = 0, S_PCT, S_RR, S_NSTRAT };

// simulated MPI message
constexpr int MAXMSG = 1 << 16;
struct Msg { int src, dst, tag, len; size_t off; int matched; int sync; uint64_t deliver_at; };
struct Coll { int arrived; int ty, op, count; long lacc[8]; unsigned long uacc[8]; double dacc[8]; long double ldacc[8]; };

struct World {
  // identity
  uint64_t seed;
  int replay;  // 1 = replay mode
  int active;
  // streams
  uint64_t rng_sched, rng_fault, rng_wl, rng_cfg, rng_libc;
  // scheduler
  Th T[MAXT];
  int nT, cur, nhosts;
  uint64_t step, switches, hash, allspin, devs_used;
  int last_spin;
  int strategy;
  double pswitch;
  int quantum, qleft;
  int pct_d, pct_next;
  uint64_t pct_pts[8];
  uint64_t pct_low;
  uint64_t budget1;
  int fair_mode;
  // clock
  uint64_t tick_ns, clock_off;
  // faults
  int fdeclared[FK], fenabled[FK];
  double frate[FK];
  uint64_t ffired[FK], fopps[FK];
  // record
  int ndev, nfault, dev_overflow;
  // results
  int verdict;  // 0 ok, 1 violation
  char vclass[48], oracle[64], msg[4096];
  int nknown;
  char known[8][256];
  int notes_len;
  int nprobe;
  char probe_name[MAXPROBE][48];
  uint64_t probe_cnt[MAXPROBE];
  int nparam;
  Param params[MAXPARAM];
  uint64_t shared_touch, hb_checked, hb_races;
  int nthreads_max;
  char phase[64];
  // multi-host
  pid_t hostpid[MAXH];
  int host_rc[MAXH];
  std::atomic<int> registered;
  int hosts_left;
  // simMPI
  int nmsg;
  size_t arena_off;
  int bar_count;
  uint64_t bar_gen;
  uint64_t mpi_sent, mpi_recv, probes_hit, probes_empty;
  Coll coll[1024];
  // side channel
  size_t side_len;
  // big arrays last
  Dev devs[MAXDEV];
  FaultRec faults[MAXFAULT];
  char notes[MAXNOTE];
  Msg msgs[MAXMSG];
  char side[16 << 20];
  char arena[96 << 20];
};

extern World* W;
extern int myhost;
extern thread_local int me;
extern thread_local bool have_baton;

inline bool on() { return W && W->active && me >= 0 && have_baton; }

// decision point before an operation of `kind` on `addr`
void pre(int kind, const void* addr);
// bookkeeping after the operation: did it change shared state?
void post(bool changed);
void wrote();
void plain_access(const void* a, bool wr);
void trace_note(const char* fmt, ...);
void block(int st, uintptr_t obj);
void wake_where(int st, uintptr_t obj, bool samehost);
uint64_t rnd_sched();
uint64_t rnd_fault();
bool fault(int kind, int64_t* param, int64_t pmax);
int choice(int n);  // recorded scheduling-like choice in [0,n), canonical value 0
[[noreturn]] void violation(const char* vclass, const char* oracle, const char* fmt, ...);
uint64_t now_ns();

}  // namespace gs
#endif
