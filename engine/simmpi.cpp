// galsim simulated MPI (DESIGN §2.7): channels in the shared World, per-pair FIFO (non-overtaking is
// kept), seeded delays / lazy completion as recorded faults, blocking collectives as scheduler blocks.
// Compiled WITHOUT -fsanitize=thread and linked only into multi-host harnesses.
#include "internal.h"
#include "simmpi/mpi.h"
#include <cstdio>
#include <cstdlib>
#include <cstring>
#include <map>
#include <signal.h>
#include <unistd.h>

using namespace gs;

namespace {
int tsize(MPI_Datatype t) { switch (t) { case MPI_BYTE: case MPI_CHAR: return 1; case MPI_INT: case MPI_UNSIGNED: case MPI_FLOAT: return 4; case MPI_LONG_DOUBLE: return 16; default: return 8; } }
int coll_seq = 0;   // per host: collectives are matched by call order
struct CollReq { int slot; void* out; int count; int ty; };
std::map<int, CollReq>* collreqs; int next_collreq = 1 << 24;
template <class T> void red(T* acc, const T* in, int n, int op, bool first) {
  for (int i = 0; i < n; i++) { if (first) acc[i] = in[i]; else if (op == MPI_SUM) acc[i] += in[i]; else if (op == MPI_MAX) acc[i] = acc[i] > in[i] ? acc[i] : in[i]; else acc[i] = acc[i] < in[i] ? acc[i] : in[i]; }
}
int contribute(const void* in, int count, MPI_Datatype ty, MPI_Op op) {
  trace_note("collective #%d type=%d op=%d count=%d in0=%ld", coll_seq, ty, op, count, ty == MPI_UNSIGNED_LONG || ty == MPI_LONG ? *(const long*)in : (long)*(const int*)in);   // only with VSIM_TRACE
  int slot = (coll_seq++) % 1024;
  Coll& c = W->coll[slot];
  if (count > 8) violation("infra", "simmpi.coll", "collective with %d > 8 elements", count);
  bool first = c.arrived == 0;
  if (first) { c.ty = ty; c.op = op; c.count = count; }
  else if (c.ty != ty || c.op != op || c.count != count) violation("oracle", "simmpi.collective-mismatch", "hosts disagree on collective #%d (type/op/count %d/%d/%d vs %d/%d/%d)", coll_seq - 1, c.ty, c.op, c.count, ty, op, count);
  switch (ty) {
  case MPI_INT: { long l[8]; for (int i = 0; i < count; i++) l[i] = ((const int*)in)[i]; red(c.lacc, l, count, op, first); break; }
  case MPI_LONG: red(c.lacc, (const long*)in, count, op, first); break;
  case MPI_UNSIGNED: { unsigned long u[8]; for (int i = 0; i < count; i++) u[i] = ((const unsigned*)in)[i]; red(c.uacc, u, count, op, first); break; }
  case MPI_UNSIGNED_LONG: red(c.uacc, (const unsigned long*)in, count, op, first); break;
  case MPI_FLOAT: { double d[8]; for (int i = 0; i < count; i++) d[i] = ((const float*)in)[i]; red(c.dacc, d, count, op, first); break; }
  case MPI_DOUBLE: red(c.dacc, (const double*)in, count, op, first); break;
  default: red(c.ldacc, (const long double*)in, count, op, first);
  }
  c.arrived++;
  return slot;
}
void fetch(int slot, void* out, int count, int ty) {
  Coll& c = W->coll[slot];
  trace_note("collective result slot=%d type=%d value0=%ld/%lu", slot, ty, (long)c.lacc[0], (unsigned long)c.uacc[0]);
  for (int i = 0; i < count; i++) switch (ty) {
    case MPI_INT: ((int*)out)[i] = (int)c.lacc[i]; break; case MPI_LONG: ((long*)out)[i] = c.lacc[i]; break;
    case MPI_UNSIGNED: ((unsigned*)out)[i] = (unsigned)c.uacc[i]; break; case MPI_UNSIGNED_LONG: ((unsigned long*)out)[i] = c.uacc[i]; break;
    case MPI_FLOAT: ((float*)out)[i] = (float)c.dacc[i]; break; case MPI_DOUBLE: ((double*)out)[i] = c.dacc[i]; break;
    default: ((long double*)out)[i] = c.ldacc[i]; }
  // the slot is recycled once every host has read it
  if (++c.op >= 1000 + W->nhosts) { memset(&c, 0, sizeof c); }
}
void mark_complete(int slot) { Coll& c = W->coll[slot]; if (c.op < 1000) c.op = 1000; }
int do_send(const void* buf, int count, MPI_Datatype ty, int dest, int tag, MPI_Request* req, int sync) {
  pre(50, nullptr);
  int len = count * tsize(ty);
  int id = W->nmsg++;
  if (id >= MAXMSG) violation("infra", "simmpi.msgs", "message table full");
  if (dest < 0 || dest >= W->nhosts) violation("oracle", "simmpi.dest", "send to non-existent host %d", dest);
  Msg& m = W->msgs[id];
  m.src = myhost; m.dst = dest; m.tag = tag; m.len = len; m.off = W->arena_off; m.matched = 0; m.sync = sync;
  int64_t d = 0;
  m.deliver_at = W->step + (fault(VF_MSG_DELAY, &d, 400) ? 1 + (uint64_t)d : 0);
  if (W->arena_off + (size_t)len + 64 > sizeof(W->arena)) violation("infra", "simmpi.arena", "message arena full (%zu bytes)", W->arena_off);
  memcpy(W->arena + m.off, buf, (size_t)len);
  W->arena_off += ((size_t)len + 15) & ~15ul;
  W->mpi_sent++;
  *req = id * 2;
  post(true);
  return MPI_SUCCESS;
}
}  // namespace

extern "C" {
int MPI_Init_thread(int*, char***, int, int* prov) { *prov = MPI_THREAD_MULTIPLE; return MPI_SUCCESS; }
int MPI_Finalize(void) { return MPI_SUCCESS; }
int MPI_Abort(MPI_Comm, int rc) { violation("crash", "simmpi.abort", "MPI_Abort(%d) called on host %d", rc, myhost); }
int MPI_Comm_rank(MPI_Comm, int* r) { *r = myhost; return MPI_SUCCESS; }
int MPI_Comm_size(MPI_Comm, int* s) { *s = W->nhosts; return MPI_SUCCESS; }
int MPI_Isend(const void* b, int c, MPI_Datatype t, int d, int tag, MPI_Comm, MPI_Request* r) { return do_send(b, c, t, d, tag, r, 0); }
int MPI_Issend(const void* b, int c, MPI_Datatype t, int d, int tag, MPI_Comm, MPI_Request* r) { return do_send(b, c, t, d, tag, r, 1); }
int MPI_Iprobe(int src, int tag, MPI_Comm, int* flag, MPI_Status* st) {
  pre(51, nullptr);
  *flag = 0;
  int start = choice(W->nhosts);   // which pair is looked at first is a recorded choice
  for (int k = 0; k < W->nhosts && !*flag; k++) {
    int s = (start + k) % W->nhosts;
    if (src != MPI_ANY_SOURCE && s != src) continue;
    for (int i = 0; i < W->nmsg; i++) {
      Msg& m = W->msgs[i];
      if (m.matched || m.dst != myhost || m.src != s) continue;
      // only the head of channel s->me is visible (non-overtaking), and only once delivered
      if (m.deliver_at <= W->step && (tag == MPI_ANY_TAG || tag == m.tag) && !fault(VF_IPROBE_MISS, nullptr, 0)) {
        *flag = 1;
        if (st) { st->MPI_SOURCE = s; st->MPI_TAG = m.tag; st->MPI_ERROR = 0; st->count_ = m.len; }
      }
      break;
    }
  }
  if (*flag) W->probes_hit++; else W->probes_empty++;
  post(false);
  return MPI_SUCCESS;
}
int MPI_Irecv(void* buf, int count, MPI_Datatype ty, int src, int tag, MPI_Comm, MPI_Request* req) {
  pre(52, nullptr);
  for (int i = 0; i < W->nmsg; i++) {
    Msg& m = W->msgs[i];
    if (m.matched || m.dst != myhost || m.src != src) continue;
    if (m.tag != tag) violation("infra", "simmpi.irecv", "Irecv(tag %d) while the head of channel %d->%d carries tag %d (not produced by the probe-then-receive pattern)", tag, src, myhost, m.tag);
    if (m.len > count * tsize(ty)) violation("oracle", "simmpi.truncate", "receive buffer of %d bytes for a %d byte message", count * tsize(ty), m.len);
    memcpy(buf, W->arena + m.off, (size_t)m.len);
    m.matched = 1; W->mpi_recv++;
    *req = i * 2 + 1;
    post(true);
    return MPI_SUCCESS;
  }
  violation("infra", "simmpi.irecv", "Irecv from host %d without a matching message (only probe-then-receive is supported)", src);
}
int MPI_Test(MPI_Request* req, int* flag, MPI_Status* st) {
  if (*req == MPI_REQUEST_NULL) { *flag = 1; return MPI_SUCCESS; }
  pre(53, nullptr);
  if (*req >= (1 << 24)) {
    auto it = collreqs->find(*req);
    Coll& c = W->coll[it->second.slot];
    bool done = c.arrived >= W->nhosts;
    if (done && fault(VF_TEST_LAZY, nullptr, 0)) done = false;
    if (done) { mark_complete(it->second.slot); fetch(it->second.slot, it->second.out, it->second.count, it->second.ty); collreqs->erase(it); *req = MPI_REQUEST_NULL; }
    *flag = done; post(done);
    return MPI_SUCCESS;
  }
  int id = *req / 2; bool recv = *req & 1;
  Msg& m = W->msgs[id];
  bool done = recv ? true : (m.sync ? m.matched != 0 : true);
  if (done && fault(VF_TEST_LAZY, nullptr, 0)) done = false;   // completion may be reported late (legal)
  *flag = done;
  if (done) { if (st) { st->MPI_SOURCE = m.src; st->MPI_TAG = m.tag; st->MPI_ERROR = 0; st->count_ = m.len; } *req = MPI_REQUEST_NULL; }
  post(done);
  return MPI_SUCCESS;
}
int MPI_Wait(MPI_Request* req, MPI_Status* st) { int f = 0; while (!f) MPI_Test(req, &f, st); return MPI_SUCCESS; }
int MPI_Get_count(const MPI_Status* st, MPI_Datatype ty, int* c) { *c = st->count_ / tsize(ty); return MPI_SUCCESS; }
int MPI_Barrier(MPI_Comm) {
  pre(54, nullptr);
  uint64_t g = W->bar_gen;
  if (++W->bar_count == W->nhosts) { W->bar_count = 0; W->bar_gen++; wake_where(BLK_MPI, 0xB0, false); post(true); }
  else { while (W->bar_gen == g) block(BLK_MPI, 0xB0); post(false); }
  return MPI_SUCCESS;
}
int MPI_Iallreduce(const void* in, void* out, int count, MPI_Datatype ty, MPI_Op op, MPI_Comm, MPI_Request* req) {
  pre(55, nullptr);
  if (!collreqs) collreqs = new std::map<int, CollReq>();
  int slot = contribute(in, count, ty, op);
  int id = next_collreq++;
  (*collreqs)[id] = CollReq{slot, out, count, ty};
  *req = id;
  if (W->coll[slot].arrived >= W->nhosts) wake_where(BLK_MPI, 0xC000 + (uintptr_t)slot, false);
  post(true);
  return MPI_SUCCESS;
}
int MPI_Allreduce(const void* in, void* out, int count, MPI_Datatype ty, MPI_Op op, MPI_Comm) {
  pre(56, nullptr);
  int slot = contribute(in, count, ty, op);
  if (W->coll[slot].arrived >= W->nhosts) { wake_where(BLK_MPI, 0xC000 + (uintptr_t)slot, false); post(true); }
  else { while (W->coll[slot].arrived < W->nhosts) block(BLK_MPI, 0xC000 + (uintptr_t)slot); post(false); }
  mark_complete(slot);
  fetch(slot, out, count, ty);
  return MPI_SUCCESS;
}
int MPI_Comm_group(MPI_Comm, MPI_Group* g) { *g = 0; return MPI_SUCCESS; }
int MPI_Group_incl(MPI_Group, int, const int*, MPI_Group* g) { *g = 0; return MPI_SUCCESS; }
}
