// galsim — deterministic simulator core: serialising scheduler over real parked
// threads, seeded strategies, record/replay of deviations and faults,
// deadlock/livelock detection, run records.  Compiled WITHOUT -fsanitize=thread.
#define _GNU_SOURCE 1
#include "internal.h"
#include <array>
#include <cerrno>
#include <cstdarg>
#include <cstdio>
#include <cstdlib>
#include <cstring>
#include <dlfcn.h>
#include <execinfo.h>
#include <fcntl.h>
#include <linux/futex.h>
#include <map>
#include <unordered_map>
#include <pthread.h>
#include <sched.h>
#include <tuple>
#include <signal.h>
#include <string>
#include <sys/mman.h>
#include <sys/personality.h>
#include <sys/stat.h>
#include <sys/prctl.h>
#include <sys/syscall.h>
#include <ucontext.h>
#include <sys/wait.h>
#include <time.h>
#include <unistd.h>
#include <vector>

namespace gs {

World* W = nullptr;
int myhost = 0;
thread_local int me = -1;

// replay tables (private copy per process, loaded before the run starts)
static std::map<std::pair<int, uint64_t>, int> rep_devs;
static std::map<std::tuple<int, int, uint64_t>, int64_t> rep_faults;
std::map<std::string, long> param_override;
static uint64_t g_timeout_s = 60;
static int out_fd_dbg = 2;
static int g_parkspin = 4000;

// ---------------------------------------------------------------- PRNG
static inline uint64_t splitmix(uint64_t& x) {
  uint64_t z = (x += 0x9E3779B97F4A7C15ull);
  z = (z ^ (z >> 30)) * 0xBF58476D1CE4E5B9ull;
  z = (z ^ (z >> 27)) * 0x94D049BB133111EBull;
  return z ^ (z >> 31);
}
static inline uint64_t xs(uint64_t& r) {
  r ^= r << 13; r ^= r >> 7; r ^= r << 17;
  return r * 0x2545F4914F6CDD1Dull;
}
uint64_t rnd_sched() { return xs(W->rng_sched); }
uint64_t rnd_fault() { return xs(W->rng_fault); }

// ---------------------------------------------------------------- baton
static int futex(std::atomic<int>* a, int op, int v) { return syscall(SYS_futex, (int*)a, op, v, nullptr, nullptr, 0); }
// true from the moment this thread is released from park() until it hands the baton on.  (W->cur == me is not the same
// thing: a freshly created thread can still be in its start-up code when the scheduler already made it current, and what
// it does there -- allocations in particular -- must not be taken for scheduled execution.)
thread_local bool have_baton = false;
static void park(int t) {
  int s = 0;
  have_baton = false;
  while (W->T[t].go.load(std::memory_order_acquire) == 0) {
    if (++s < g_parkspin) __builtin_ia32_pause();
    else futex(&W->T[t].go, FUTEX_WAIT, 0);
  }
  W->T[t].go.store(0, std::memory_order_relaxed);
  have_baton = true;
}
static void wake(int t) {
  have_baton = false;
  W->T[t].go.store(1, std::memory_order_release);
  futex(&W->T[t].go, FUTEX_WAKE, 1);
}

uint64_t now_ns() { return 1000000000ull * 1000 + W->clock_off + W->step * W->tick_ns; }

// ---------------------------------------------------------------- violations
static const char* stname(int s) {
  static const char* n[] = {"free", "runnable", "mutex", "cond", "join", "barrier", "once", "mpi", "world", "sleep", "done"};
  return n[s];
}
static void describe_threads(char* buf, size_t cap) {
  size_t o = strlen(buf);
  for (int i = 0; i < W->nT && o + 96 < cap; i++) {
    Th& t = W->T[i];
    if (t.st == FREE || t.st == DONE) continue;
    o += snprintf(buf + o, cap - o, " | T%d h%d %s%s obj=%lx ops=%lu", i, t.host, stname(t.st),
                  t.st == RUNNABLE ? (t.hook ? "(spin-hook)" : t.spinning ? "(spin)" : "") : "", (unsigned long)t.waitobj, (unsigned long)t.ops);
  }
  if (W->nhosts > 1) {
    int shown = 0, unmatched = 0;
    for (int i = 0; i < W->nmsg; i++) if (!W->msgs[i].matched) unmatched++;
    o += snprintf(buf + o, cap - o, " || simMPI: %d messages sent, %d unmatched", W->nmsg, unmatched);
    for (int i = 0; i < W->nmsg && shown < 8 && o + 80 < cap; i++) if (!W->msgs[i].matched) { Msg& m = W->msgs[i]; o += snprintf(buf + o, cap - o, " [#%d %d->%d tag %d len %d sync %d deliver@%lu]", i, m.src, m.dst, m.tag, m.len, m.sync, (unsigned long)m.deliver_at); shown++; }
  }
}
[[noreturn]] static void die_run(int code) {
  // make sure nobody else proceeds: we hold the baton and never pass it
  fflush(stdout); fflush(stderr);
  if (W->nhosts > 1) {
    for (int h = 0; h < W->nhosts; h++)
      if (h != myhost && W->hostpid[h] > 0) kill(W->hostpid[h], SIGKILL);
  }
  _exit(code);
}
[[noreturn]] void violation(const char* vclass, const char* oracle, const char* fmt, ...) {
  if (!W->verdict) {
    W->verdict = 1;
    snprintf(W->vclass, sizeof W->vclass, "%s", vclass);
    snprintf(W->oracle, sizeof W->oracle, "%s", oracle);
    va_list ap; va_start(ap, fmt);
    vsnprintf(W->msg, sizeof W->msg, fmt, ap);
    va_end(ap);
    if (!strncmp(vclass, "liveness", 8)) {
      describe_threads(W->msg, sizeof W->msg);
      size_t o = strlen(W->msg);
      o += snprintf(W->msg + o, sizeof W->msg - o, " || running T%d stack:", me);
      // frame-pointer walk (everything is built with -fno-omit-frame-pointer); stops at the first implausible frame
      uintptr_t* fp = (uintptr_t*)__builtin_frame_address(0);
      for (int i = 0; i < 16 && fp && o + 20 < sizeof W->msg; i++) {
        uintptr_t ret = fp[1], next = fp[0];
        if (ret < 0x1000) break;
        o += snprintf(W->msg + o, sizeof W->msg - o, " %p", (void*)ret);
        if (next <= (uintptr_t)fp || next - (uintptr_t)fp > (1u << 20)) break;
        fp = (uintptr_t*)next;
      }
    }
  }
  W->active = 0;
  if (getenv("VSIM_HANG_ON_VIOLATION")) {   // debugging aid: keep every process alive for gdb -p
    char b[256]; int n = snprintf(b, sizeof b, "galsim: violation in pid %d (host %d); host pids:", (int)getpid(), myhost);
    for (int h = 0; h < W->nhosts; h++) n += snprintf(b + n, sizeof b - n, " %d", (int)W->hostpid[h]);
    b[n++] = '\n'; if (::write(out_fd_dbg, b, n)) {}
    for (;;) pause();
  }
  die_run(42);
}

// ---------------------------------------------------------------- scheduler
static inline void record_dev(int tid, uint64_t dp, int next) {
  if (W->ndev < MAXDEV) W->devs[W->ndev++] = Dev{tid, next, dp};
  else W->dev_overflow = 1;
}
static void enter_fair_mode() {
  W->fair_mode = 1;
  for (int i = 0; i < W->nT; i++) W->T[i].stall_until = 0;
}

static int trace_fd = -2;
static void trace_sched(int next, const int* cand, int nc, const int* cs, int ns, bool must_leave);
// choose next thread; called by baton holder.  Returns when caller holds the baton again
// (or never, if caller is DONE).
static void reschedule(bool must_leave) {
  Th* T = W->T;
  int cand[MAXT], nc = 0, cs[MAXT], ns = 0, cstall[MAXT], nst = 0;
  uint64_t now = now_ns();
  bool anytimed = false; uint64_t mind = ~0ull;
  for (int i = 0; i < W->nT; i++) {
    Th& t = T[i];
    if ((t.st == BLK_COND || t.st == BLK_SLEEP || t.st == BLK_MPI) && t.deadline) {
      if (t.deadline <= now) { t.st = RUNNABLE; t.timedout = 1; t.deadline = 0; }
      else { anytimed = true; if (t.deadline < mind) mind = t.deadline; }
    }
    if (t.st != RUNNABLE) continue;
    if (t.spinning) cs[ns++] = i;
    else { cand[nc++] = i; if (t.stall_until > W->step) cstall[nst++] = i; }
  }
  if (!nc && !ns) {
    if (anytimed) {  // idle: jump the clock to the next deadline
      W->clock_off += mind - now;
      for (int i = 0; i < W->nT; i++) {
        Th& t = T[i];
        if (t.deadline && t.deadline <= mind && (t.st == BLK_COND || t.st == BLK_SLEEP || t.st == BLK_MPI)) { t.st = RUNNABLE; t.timedout = 1; t.deadline = 0; cand[nc++] = i; }
      }
    } else {
      violation("liveness/deadlock", "engine.deadlock", "deadlock: no runnable thread at step %lu", (unsigned long)W->step);
    }
  }
  uint64_t key = T[me].ops++;
  bool meok = !must_leave && T[me].st == RUNNABLE && !T[me].spinning;
  int canon;
  if (nc) canon = meok ? me : cand[0];
  else { canon = cs[0]; for (int i = 0; i < ns; i++) if (cs[i] > W->last_spin) { canon = cs[i]; break; } }
  int next = canon;
  if (W->replay) {
    auto it = rep_devs.find({me, key});
    if (it != rep_devs.end()) {
      int w = it->second;
      if (w >= 0 && w < W->nT && T[w].st == RUNNABLE) { next = w; W->devs_used++; }
    }
    if (next != canon) record_dev(me, key, next);
  } else if (W->fair_mode) {
    if (nc) {
      if (meok && W->qleft-- > 0) next = me;
      else { next = cand[0]; for (int i = 0; i < nc; i++) if (cand[i] > me) { next = cand[i]; break; } W->qleft = 20; }
    }
    if (next != canon) record_dev(me, key, next);
  } else {
    if (nc) {
      // stalled threads are skipped unless nothing else can run
      int c2[MAXT], n2 = 0;
      if (nst && nst < nc) { for (int i = 0; i < nc; i++) if (!(T[cand[i]].stall_until > W->step)) c2[n2++] = cand[i]; }
      else { for (int i = 0; i < nc; i++) c2[n2++] = cand[i]; }
      bool meok2 = meok && !(nst && nst < nc && T[me].stall_until > W->step);
      switch (W->strategy) {
      case S_PCT: {
        while (W->pct_next < W->pct_d && W->step >= W->pct_pts[W->pct_next]) { T[me].prio = W->pct_low--; W->pct_next++; }
        int best = c2[0];
        for (int i = 1; i < n2; i++) if (T[c2[i]].prio > T[best].prio) best = c2[i];
        next = best;
        break; }
      case S_RR:
        if (meok2 && W->qleft-- > 0) next = me;
        else { next = c2[0]; for (int i = 0; i < n2; i++) if (c2[i] > me) { next = c2[i]; break; } W->qleft = W->quantum; }
        break;
      default:
        if (meok2 && (rnd_sched() % 1000000) >= (uint64_t)(W->pswitch * 1000000)) next = me;
        else next = c2[rnd_sched() % n2];
      }
    } else {
      next = cs[rnd_sched() % ns];
    }
    if (next != canon) record_dev(me, key, next);
  }
  if (!nc) {
    W->last_spin = next;
    bool allhook = true;
    for (int i = 0; i < ns; i++) if (!T[cs[i]].hook) allhook = false;
    uint64_t lim = allhook ? 3000ull * (ns + 1) : 300000ull;
    if (++W->allspin > lim && !anytimed)
      violation("liveness/deadlock", "engine.allspin", "deadlock/livelock: every runnable thread spins without any state change (%lu rounds) at step %lu", (unsigned long)W->allspin, (unsigned long)W->step);
  }
  if (trace_fd != -1) trace_sched(next, cand, nc, cs, ns, must_leave);
  if (next != me) {
    W->switches++;
    int self = me;
    // decided while still holding the baton: once `next` is awake it may change our state (a host's main thread marks the
    // threads it leaves behind DONE when it exits), and a thread that then skipped park() would run outside the schedule
    bool leave_for_good = T[self].st == DONE;
    W->cur = next;
    wake(next);
    if (!leave_for_good) park(self);
  }
}

void wrote() {
  W->allspin = 0;
  for (int i = 0; i < W->nT; i++) {
    Th& t = W->T[i];
    if (t.spinning) { t.spinning = 0; t.hook = 0; t.spin = SPIN_K - 8; }
  }
}

static std::map<uintptr_t, std::pair<uint32_t, int>>* locs;  // addr -> (id, last tid)
static uint32_t nloc = 0;

// debugging aid: VSIM_TRACE=<prefix> writes one line per decision point to <prefix>.<seed>.<host> (diff two runs of one seed)
static void trace_open() {
  const char* p = getenv("VSIM_TRACE");
  if (!p) { trace_fd = -1; return; }
  char b[400]; snprintf(b, sizeof b, "%s.%lu.%d", p, (unsigned long)W->seed, myhost);
  trace_fd = (int)syscall(SYS_open, b, O_WRONLY | O_CREAT | O_TRUNC | O_APPEND, 0644);
}
static void trace_sched(int next, const int* cand, int nc, const int* cs, int ns, bool must_leave) {
  if (trace_fd == -2) trace_open();
  if (trace_fd < 0 || (next == me && nc + ns <= 1)) return;
  char b[900]; int n = snprintf(b, sizeof b, "%lu S t%d->t%d%s run[", (unsigned long)W->step, me, next, must_leave ? " leave" : "");
  for (int i = 0; i < nc && n < 800; i++) n += snprintf(b + n, sizeof b - n, "%d%s ", cand[i], W->T[cand[i]].stall_until > W->step ? "s" : "");
  n += snprintf(b + n, sizeof b - n, "] spin[");
  for (int i = 0; i < ns && n < 860; i++) n += snprintf(b + n, sizeof b - n, "%d ", cs[i]);
  n += snprintf(b + n, sizeof b - n, "]\n");
  syscall(SYS_write, trace_fd, b, n);
}
void trace_note(const char* fmt, ...) {   // free-form line in the trace (no decision point, no allocation)
  if (trace_fd == -2) trace_open();
  if (trace_fd < 0) return;
  char b[300]; int n = snprintf(b, sizeof b, "%lu N t%d h%d ", (unsigned long)W->step, me, myhost);
  va_list ap; va_start(ap, fmt); n += vsnprintf(b + n, sizeof b - n - 2, fmt, ap); va_end(ap);
  if (n > (int)sizeof b - 2) n = sizeof b - 2;
  b[n++] = '\n';
  syscall(SYS_write, trace_fd, b, n);
}
static void trace_op(int kind, const void* addr, uint32_t lid) {
  if (trace_fd == -2) trace_open();
  if (trace_fd < 0) return;
  char b[120]; int n = snprintf(b, sizeof b, "%lu t%d k%d l%u %p\n", (unsigned long)W->step, me, kind, lid, addr);
  syscall(SYS_write, trace_fd, b, n);
}

void pre(int kind, const void* addr) {
  World* w = W;
  w->step++;
  uint32_t lid = 0;
  if (addr) {
    if (!locs) locs = new std::map<uintptr_t, std::pair<uint32_t, int>>();
    auto it = locs->find((uintptr_t)addr);
    if (it == locs->end()) it = locs->emplace((uintptr_t)addr, std::make_pair(++nloc, me)).first;
    else if (it->second.second != me) { it->second.second = me; w->shared_touch++; }
    lid = it->second.first;
  }
  w->hash = (w->hash ^ ((uint64_t)me * 1315423911ull + (uint64_t)kind * 2654435761ull + lid)) * 1099511628211ull;
  if (trace_fd != -1) trace_op(kind, addr, lid);
  w->T[me].last_addr = (uintptr_t)addr;
  if (w->step > w->budget1) {
    if (!w->fair_mode) enter_fair_mode();
    else if (w->step > 2 * w->budget1)
      violation("liveness/no-progress", "engine.budget", "no progress: run did not finish within %lu steps, %lu of them fault-free under fair round-robin", (unsigned long)w->step, (unsigned long)w->budget1);
  }
  // stall fault: lands at a decision point of this thread
  if (!w->replay && !w->fair_mode && w->fenabled[VF_STALL] && w->T[me].stall_until <= w->step) {
    int64_t len;
    if (fault(VF_STALL, &len, 2000)) w->T[me].stall_until = w->step + 20 + len;
  }
  if (w->nhosts > 1 && !w->replay && !w->fair_mode && w->fenabled[VF_HOST_STALL]) {
    int64_t len;
    if (fault(VF_HOST_STALL, &len, 3000)) for (int i = 0; i < w->nT; i++) if (w->T[i].host == myhost) w->T[i].stall_until = w->step + 50 + len;
  }
  reschedule(false);
}
void post(bool changed) {
  Th& t = W->T[me];
  if (changed) { t.spin = 0; wrote(); return; }
  // a non-writing operation counts towards "spinning" only if it re-reads a location this thread has read recently:
  // long read-only scans over many distinct locations are progress, not a spin loop
  uintptr_t a = t.last_addr;
  if (a) {
    bool seen = false;
    for (int i = 0; i < 64; i++) if (t.recent[i] == a) { seen = true; break; }
    if (!seen) { t.recent[t.recent_pos++ & 63] = a; if (t.spin > 0) t.spin--; return; }
  }
  if (++t.spin >= SPIN_K) t.spinning = 1;
}
void block(int st, uintptr_t obj) {
  W->T[me].st = st; W->T[me].waitobj = obj;
  reschedule(true);
}
void wake_where(int st, uintptr_t obj, bool samehost) {
  for (int i = 0; i < W->nT; i++) {
    Th& t = W->T[i];
    if (t.st == st && t.waitobj == obj && (!samehost || t.host == myhost)) { t.st = RUNNABLE; t.deadline = 0; }
  }
}

bool fault(int kind, int64_t* param, int64_t pmax) {
  if (!on()) return false;
  Th& t = W->T[me];
  uint64_t n = t.fcount[kind]++;
  W->fopps[kind]++;
  int64_t p = 0;
  if (W->replay) {
    auto it = rep_faults.find(std::make_tuple(me, kind, n));
    if (it == rep_faults.end()) return false;
    p = it->second;
  } else {
    if (W->fair_mode || !W->fenabled[kind]) return false;
    if (W->nfault >= MAXFAULT) return false;   // keep the record complete: no unrecorded faults
    if ((rnd_fault() % 1000000) >= (uint64_t)(W->frate[kind] * 1000000)) return false;
    p = pmax > 0 ? (int64_t)(rnd_fault() % (uint64_t)pmax) : 0;
  }
  if (W->nfault < MAXFAULT) W->faults[W->nfault++] = FaultRec{me, kind, n, p};
  W->ffired[kind]++;
  if (param) *param = p;
  return true;
}

// plain access by instrumented code: a decision point when the location is contended -- its accessor changed at least
// twice (created by one thread, used by a second one, then touched by a third party or handed back: private data that
// was merely initialised by another thread does not qualify) -- and the VF_PLAIN_PREEMPT coin says so.  From then on every
// access to it qualifies, including the write half of a read-modify-write sequence.
static int plain_window = 0;   // switched on by the harness around calls into the code under test
static uint16_t plain_last[1 << 16];   // low 8 bits: last accessor + 1, bits 8..9: number of accessor changes (saturating)
void plain_access(const void* a, bool wr) {
  if (!W->fenabled[VF_PLAIN_PREEMPT] && !W->replay) return;
  uint32_t slot = (uint32_t)(((uintptr_t)a >> 3) * 2654435761u) >> 16;
  uint16_t e = plain_last[slot];
  unsigned last = e & 0xff, changes = e >> 8;
  if (last != (unsigned)(me + 1)) { if (last && changes < 3) changes++; plain_last[slot] = (uint16_t)((changes << 8) | (unsigned)(me + 1)); }
  if (trace_fd >= 0 && getenv("VSIM_TRACE_PLAIN")) { char b[96]; int n = snprintf(b, sizeof b, "%lu P t%d %s %p ch=%u\n", (unsigned long)W->step, me, wr ? "W" : "R", a, changes); syscall(SYS_write, trace_fd, b, n); }
  if (!plain_window || W->T[me].plain_hold) return;
  if (changes < 2) {
    // ... or it lives on another thread's stack (state of a parallel construct that the workers reach through a pointer:
    // the first writer's read-modify-write must be splittable before any sharing has been observed)
    uintptr_t u = (uintptr_t)a; int owner = -2;
    if (u >= 0x7d0000000000ull && u < 0x7d0000000000ull + (512ull << 20)) owner = -1;   // the initial thread of this process
    else if (u >= 0x7b0000000000ull && u < 0x7b0000000000ull + (uintptr_t)MAXT * (17ul << 20)) owner = (int)((u - 0x7b0000000000ull) / (17ul << 20));
    if (owner == -2 || owner == me || (owner == -1 && W->T[me].lid == 0)) return;
  }
  int64_t len = 0;
  if (!fault(VF_PLAIN_PREEMPT, &len, 400)) return;
  // preempt for real: the thread is held back for a while so that the others get to the same data
  if (!W->fair_mode) W->T[me].stall_until = W->step + 3 + (uint64_t)len;
  pre(wr ? 10 : 9, a);
  if (wr) { W->T[me].spin = 0; wrote(); } else post(false);
}

int choice(int n) {
  if (!on() || n <= 1) return 0;
  Th& t = W->T[me];
  uint64_t k = t.fcount[VF_CHOICE]++;
  int v = 0;
  if (W->replay) {
    auto it = rep_faults.find(std::make_tuple(me, (int)VF_CHOICE, k));
    if (it != rep_faults.end()) v = (int)(it->second % n);
  } else if (!W->fair_mode) {
    v = (int)(rnd_sched() % (uint64_t)n);
  }
  if (v && W->nfault < MAXFAULT) W->faults[W->nfault++] = FaultRec{me, VF_CHOICE, k, v};
  return v;
}

}  // namespace gs

using namespace gs;

// ======================================================================= public API
extern "C" {

uint64_t vsim_step(void) { return W ? W->step : 0; }
int vsim_tid(void) { return me; }
int vsim_host(void) { return myhost; }
int vsim_active(void) { return on(); }
void vsim_yield(void) { if (on()) { pre(9, nullptr); post(false); } }
void galois_verif_spin(void) {
  if (!on()) return;
  Th& t = W->T[me];
  t.spinning = 1; t.hook = 1; t.spin = SPIN_K;
  W->step++;
  W->hash = (W->hash ^ ((uint64_t)me * 1315423911ull + 77)) * 1099511628211ull;
  if (W->step > W->budget1) { pre(10, nullptr); return; }
  reschedule(false);
}
uint64_t vsim_wl_rand(void) { return xs(W->rng_wl); }
uint64_t vsim_wl_below(uint64_t n) { return n ? xs(W->rng_wl) % n : 0; }

static long param_common(const char* name, long drawn) {
  long v = drawn; int ov = 0;
  auto it = param_override.find(name);
  if (it != param_override.end()) { v = it->second; ov = 1; }
  for (int i = 0; i < W->nparam; i++) if (!strcmp(W->params[i].name, name)) return v;
  if (W->nparam < MAXPARAM) {
    Param& p = W->params[W->nparam++];
    snprintf(p.name, sizeof p.name, "%s", name); p.val = v; p.overridden = ov;
  }
  return v;
}
long vsim_param(const char* name, long lo, long hi) {
  uint64_t r = xs(W->rng_cfg);
  long d = hi > lo ? lo + (long)(r % (uint64_t)(hi - lo + 1)) : lo;
  return param_common(name, d);
}
long vsim_param_log(const char* name, long lo, long hi) {
  uint64_t r = xs(W->rng_cfg);
  if (lo < 1) lo = 1;
  if (hi <= lo) return param_common(name, lo);
  double u = (double)(r >> 11) / (double)(1ull << 53);
  double v = (double)lo * __builtin_exp(u * __builtin_log((double)(hi + 1) / (double)lo));
  long d = (long)v; if (d < lo) d = lo; if (d > hi) d = hi;
  return param_common(name, d);
}
long vsim_param_fixed(const char* name, long dflt) { return param_common(name, dflt); }

void vsim_enable_fault(int kind, double lo, double hi) {
  W->fdeclared[kind] = 1;
  uint64_t r1 = xs(W->rng_cfg), r2 = xs(W->rng_cfg);
  char nm[32]; snprintf(nm, sizeof nm, "fault%d", kind);
  long en = (long)(r1 & 1);
  en = param_common(nm, en);
  double u = (double)(r2 >> 11) / (double)(1ull << 53);
  double rate = lo * __builtin_exp(u * __builtin_log(hi / lo));
  W->fenabled[kind] = W->replay ? 0 : (int)en;
  W->frate[kind] = rate;
}
void vsim_set_budget(uint64_t b1) { W->budget1 = b1; }

static int probe_idx(const char* name) {
  for (int i = 0; i < W->nprobe; i++) if (!strcmp(W->probe_name[i], name)) return i;
  if (W->nprobe >= MAXPROBE) return -1;
  snprintf(W->probe_name[W->nprobe], 48, "%s", name);
  return W->nprobe++;
}
void vsim_probe_add(const char* name, uint64_t n) { int i = probe_idx(name); if (i >= 0) W->probe_cnt[i] += n; }
void vsim_probe(const char* name) { vsim_probe_add(name, 1); }
void vsim_note(const char* key, const char* fmt, ...) {
  char buf[2048];
  va_list ap; va_start(ap, fmt); vsnprintf(buf, sizeof buf, fmt, ap); va_end(ap);
  int n = snprintf(W->notes + W->notes_len, MAXNOTE - W->notes_len, "%s\t%s\n", key, buf);
  if (n > 0 && W->notes_len + n < MAXNOTE) W->notes_len += n;
}
void vsim_fail(const char* oracle, const char* fmt, ...) {
  char buf[3072];
  va_list ap; va_start(ap, fmt); vsnprintf(buf, sizeof buf, fmt, ap); va_end(ap);
  violation("oracle", oracle, "%s", buf);
}
void vsim_known(const char* key, const char* fmt, ...) {
  char buf[200];
  va_list ap; va_start(ap, fmt); vsnprintf(buf, sizeof buf, fmt, ap); va_end(ap);
  for (int i = 0; i < W->nknown; i++) if (!strncmp(W->known[i], key, strlen(key))) return;
  if (W->nknown < 8) snprintf(W->known[W->nknown++], 256, "%s\t%s", key, buf);
}
void vsim_plain_preempt_window(int on_) { gs::plain_window = on_; }
void vsim_plain_hold(int on_) { if (gs::on()) W->T[gs::me].plain_hold = on_; }
void vsim_phase(const char* label) { snprintf(W->phase, sizeof W->phase, "%s", label); }

}  // extern "C"

#include "hb.inc"
#include "tsan_abi.inc"
#include "pthread_ipose.inc"
#include "env_ipose.inc"
#include "alloc_ipose.inc"
#include "runner_main.inc"
