// galsim simulated MPI: shadow of <mpi.h> with exactly the entry points Galois's default
// (non-LCI, non-bare) configuration uses.  Implementation: engine/simmpi.cpp.
#ifndef GALSIM_MPI_H
#define GALSIM_MPI_H
#ifdef __cplusplus
extern "C" {
#endif
typedef int MPI_Comm; typedef int MPI_Request; typedef int MPI_Datatype; typedef int MPI_Op; typedef int MPI_Group; typedef int MPI_Info;
typedef int MPI_Win; typedef int MPI_File; typedef long MPI_Aint; typedef long MPI_Offset;
typedef struct { int MPI_SOURCE; int MPI_TAG; int MPI_ERROR; int count_; } MPI_Status;
#define MPI_COMM_WORLD 1
#define MPI_SUCCESS 0
#define MPI_ANY_SOURCE (-1)
#define MPI_ANY_TAG (-1)
#define MPI_THREAD_MULTIPLE 3
#define MPI_STATUS_IGNORE ((MPI_Status*)0)
#define MPI_REQUEST_NULL (-1)
#define MPI_INFO_NULL 0
#define MPI_UNDEFINED (-32766)
#define MPI_BYTE 1
#define MPI_INT 2
#define MPI_UNSIGNED 3
#define MPI_LONG 4
#define MPI_UNSIGNED_LONG 5
#define MPI_FLOAT 6
#define MPI_DOUBLE 7
#define MPI_LONG_DOUBLE 8
#define MPI_CHAR 9
#define MPI_UINT MPI_UNSIGNED
#define MPI_SUM 1
#define MPI_MAX 2
#define MPI_MIN 3
int MPI_Init_thread(int*, char***, int, int*);
int MPI_Finalize(void);
int MPI_Abort(MPI_Comm, int);
int MPI_Comm_rank(MPI_Comm, int*);
int MPI_Comm_size(MPI_Comm, int*);
int MPI_Isend(const void*, int, MPI_Datatype, int, int, MPI_Comm, MPI_Request*);
int MPI_Issend(const void*, int, MPI_Datatype, int, int, MPI_Comm, MPI_Request*);
int MPI_Irecv(void*, int, MPI_Datatype, int, int, MPI_Comm, MPI_Request*);
int MPI_Iprobe(int, int, MPI_Comm, int*, MPI_Status*);
int MPI_Test(MPI_Request*, int*, MPI_Status*);
int MPI_Wait(MPI_Request*, MPI_Status*);
int MPI_Get_count(const MPI_Status*, MPI_Datatype, int*);
int MPI_Barrier(MPI_Comm);
int MPI_Allreduce(const void*, void*, int, MPI_Datatype, MPI_Op, MPI_Comm);
int MPI_Iallreduce(const void*, void*, int, MPI_Datatype, MPI_Op, MPI_Comm, MPI_Request*);
int MPI_Comm_group(MPI_Comm, MPI_Group*);
int MPI_Group_incl(MPI_Group, int, const int*, MPI_Group*);
#ifdef __cplusplus
}
#endif
#endif
