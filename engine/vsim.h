// galsim — public interface between harnesses and the deterministic simulator.
// Harnesses are ordinary programs whose main() runs as simulated thread 0.
#ifndef VSIM_H
#define VSIM_H
#include <stddef.h>
#include <stdint.h>
#ifdef __cplusplus
extern "C" {
#endif

// ---- logical clock / scheduling -------------------------------------------
uint64_t vsim_step(void);  // global event sequence number (total order)
void vsim_yield(void);     // explicit decision point
int vsim_tid(void);        // simulated thread id (creation order), -1 outside
int vsim_host(void);       // simulated host id (0 in single-host runs)
int vsim_active(void);

// ---- seeded streams --------------------------------------------------------
uint64_t vsim_wl_rand(void);             // workload stream (independent of schedule)
uint64_t vsim_wl_below(uint64_t n);      // uniform in [0,n)
// configuration stream: draws uniformly from [lo,hi] unless the run's
// parameter overrides (VSIM_PARAMS / replay file) fix `name`.  Always consumes
// one draw, so overriding one parameter does not shift the others.  Every
// value is written to the run record.
long vsim_param(const char* name, long lo, long hi);
// same but log-uniform over [lo,hi] (lo>=1)
long vsim_param_log(const char* name, long lo, long hi);
// non-drawn parameter with default (only overridable)
long vsim_param_fixed(const char* name, long dflt);

// ---- machine ---------------------------------------------------------------
// Present a synthetic machine to HWTopoLinux.cpp: `nsock` sockets with
// cores[i] cores each, `smt` hardware threads per core; `holes` removes that
// many processors from the allowed cpuset.  Must be called before the Galois
// runtime is constructed.  Returns number of usable hardware threads.
int vsim_set_topology(int nsock, const int* cores, int smt, int holes);
// Convenience: draw a topology from the config stream with at most maxThreads
// hardware threads; writes a description into desc (may be NULL).
int vsim_draw_topology(int maxThreads, char* desc, size_t desclen);

// ---- faults ----------------------------------------------------------------
enum vsim_fault_kind {
  VF_STALL = 0,        // thread unschedulable for a window of steps
  VF_LATE_START,       // created thread first runs late
  VF_CAS_WEAK,         // spurious failure of compare_exchange_weak
  VF_COND_SPURIOUS,    // spurious wake-up of pthread_cond_wait
  VF_COND_MULTIWAKE,   // signal wakes more than one waiter
  VF_HUGE_REFUSED,     // MAP_HUGETLB refused
  VF_CLOCK_JUMP,       // simulated clock jumps forward
  VF_SHORT_WRITE,      // write()/pwrite() transfers fewer bytes
  VF_SHORT_READ,       // read()/pread() transfers fewer bytes
  VF_MSG_DELAY,        // message delivery delayed
  VF_IPROBE_MISS,      // MPI_Iprobe does not yet see a deliverable message
  VF_TEST_LAZY,        // MPI_Test reports incomplete once more
  VF_HOST_STALL,       // all threads of a host stall
  VF_NKINDS
  // (VF_NKINDS itself is the internal "recorded choice" kind; the next index is a public kind again, placed there so that
  // the numbering of replay files written before it existed stays valid)
};
// A plain (non-atomic, non-volatile) access by instrumented code to a location that another thread touched last becomes a
// decision point: lost updates and torn read-modify-write sequences on unprotected shared data become reachable by the
// schedule search (they are not otherwise, plain accesses are not decision points).  Recorded like a fault so that
// replays and minimisation reproduce exactly which accesses were decision points.
#define VF_PLAIN_PREEMPT ((enum vsim_fault_kind)(VF_NKINDS + 1))
// Plain-access decision points only exist while the (process-wide) window is open, and never for a thread that holds:
// harness bookkeeping between library calls relies on running atomically (shared logs, shadow maps, ledgers).
void vsim_plain_preempt_window(int on);
void vsim_plain_hold(int on);
#ifdef __cplusplus
struct VsimPlainHold { VsimPlainHold() { vsim_plain_hold(1); } ~VsimPlainHold() { vsim_plain_hold(0); } };
#endif

// Declare that this harness tolerates fault `kind`.  Per run (swarm) the kind
// is enabled with probability 1/2 and its rate drawn log-uniformly from
// [rate_lo, rate_hi] (probability per opportunity).  In replay mode faults
// fire exactly where the replay file says.
void vsim_enable_fault(int kind, double rate_lo, double rate_hi);

// ---- budgets ---------------------------------------------------------------
// Step budget B1; after B1 steps faults stop and the scheduler turns fair
// (round-robin); after B1 more steps the run is a liveness violation.
void vsim_set_budget(uint64_t b1);

// ---- oracles / evidence ----------------------------------------------------
void vsim_probe(const char* name);                 // rare-branch counter
void vsim_probe_add(const char* name, uint64_t n);
void vsim_note(const char* key, const char* fmt, ...) __attribute__((format(printf, 2, 3)));
void vsim_fail(const char* oracle, const char* fmt, ...) __attribute__((noreturn, format(printf, 2, 3)));
// mark a "known finding" signature hit by this run (run continues or ends at caller's choice)
void vsim_known(const char* key, const char* fmt, ...) __attribute__((format(printf, 2, 3)));

// ---- happens-before checked plain data -------------------------------------
void* vsim_tracked_alloc(size_t n);  // zeroed, 8-byte aligned, in the HB-checked arena
void vsim_plain_read(const void* p);  // explicit check (clang build / uninstrumented TU)
void vsim_plain_write(const void* p);
uint64_t vsim_hb_checked(void);
void vsim_hb_enable(int on);
// Library memory under the happens-before check: while switched on, every anonymous mapping the code under test makes
// (LargeArray, NUMA arrays, page-pool pages) is "watched": unordered conflicting plain accesses by two threads, and
// atomic accesses unordered with conflicting plain ones, are reported as hb-race / hb.library-data-race.
void vsim_hb_watch_mmaps(int on);
void vsim_hb_watch(const void* p, size_t len);   // watch an existing range
void vsim_hb_unwatch_all(void);
// Everything: every plain access made by instrumented code (library and harness) is checked, except accesses of a thread
// to its own stack.  Expensive; meant to bracket single library calls.
void vsim_hb_watch_everything(int on);
// label the current phase of the harness (shows up in race reports)
void vsim_phase(const char* label);

// ---- files -----------------------------------------------------------------
const char* vsim_workdir(void);       // per-run scratch directory
void vsim_track_fd_faults(int on);    // short read/write faults on regular files opened from now on
// captured stdout of this run (fd 1 is a memfd); returns bytes copied
size_t vsim_read_stdout(char* buf, size_t cap);
size_t vsim_read_stderr(char* buf, size_t cap);

// ---- multi-host ------------------------------------------------------------
// Fork `nhosts` simulated hosts; each runs hostmain(hostid) as a simulated
// thread of the one shared scheduler.  Returns 0 if every host returned 0.
int vsim_world(int nhosts, int (*hostmain)(int));
// side channel: hosts append records the system under test never sees; the
// parent reads them after vsim_world returns.
void vsim_side_put(const void* data, size_t len);
size_t vsim_side_size(void);
const void* vsim_side_data(void);

#ifdef __cplusplus
}
#endif
#endif
