// C12 (second half) — graph-convert conversions preserve / transform the graph as documented.
// The REAL tools/graph-convert/graph-convert.cpp is compiled into this binary (its main() renamed to app_main); the driver
// generates a graph, writes the conversion's input with writers of its own (text formats with comments, blank lines, CR/LF,
// extra columns, id gaps; binary files through the independent encoder), runs one conversion under the simulator with
// short reads / short writes injected into the tool's file I/O, and decodes the output with parsers of its own.
#include "grwriter.h"
#include <algorithm>
#include <map>
#include <set>
#include <sstream>
#include <string>

int app_main(int, char**);

using MS = std::multiset<std::pair<uint32_t, uint64_t>>;   // (dst, weight)
struct Adj { uint32_t n = 0; std::vector<MS> out; size_t edges() const { size_t e = 0; for (auto& s : out) e += s.size(); return e; } };

static Adj adj_of(const gr::Model& m, bool with_data) {
  Adj a; a.n = m.n; a.out.resize(m.n);
  for (auto& e : m.edges) a.out[e.src].insert({e.dst, with_data ? e.data : 0});
  return a;
}
static std::string slurp_file(const std::string& p) { auto b = gr::read_file(p); return std::string(b.begin(), b.end()); }
static void spit(const std::string& p, const std::string& s) { gr::write_file(p, std::vector<unsigned char>(s.begin(), s.end())); }

static const char* conv_names[] = {"edgelist2gr", "csv2gr", "dimacs2gr", "mtx2gr", "gr2edgelist", "gr2edgelist1ind", "gr2dimacs", "gr2mtx", "gr2adjacencylist",
                                   "gr2tgr", "gr2sgr", "gr2cgr", "gr2sorteddstgr", "gr2sortedweightgr", "gr2randomweightgr", "gr2randgr", "gr2ringgr", "gr2linegr", "gr2biggr"};
enum { EL2GR, CSV2GR, DIMACS2GR, MTX2GR, GR2EL, GR2EL1, GR2DIMACS, GR2MTX, GR2ADJ, GR2T, GR2S, GR2C, GR2SORTDST, GR2SORTW, GR2RANDW, GR2RAND, GR2RING, GR2LINE, GR2BIG, NCONV };

static std::string run_out;
static int run_convert(const std::vector<std::string>& a) {
  std::vector<char*> argv; for (auto& s : a) argv.push_back((char*)s.c_str()); argv.push_back(nullptr);
  std::string cmd; for (auto& s : a) cmd += s + " ";
  vsim_note("cmdline", "%s", cmd.c_str());
  vsim_track_fd_faults(1);
  int rc = app_main((int)a.size(), argv.data());
  vsim_track_fd_faults(0);
  return rc;
}
static gr::Model load_gr(const std::string& path, const char* what, size_t want_se) {
  gr::Model m; int ver; size_t se; std::string why;
  auto bytes = gr::read_file(path);
  if (!gr::decode(bytes, m, ver, se, why)) vsim_fail("c12.convert.malformed", "%s: output is not a well-formed binary graph: %s", what, why.c_str());
  if (se != want_se) vsim_fail("c12.convert.edgesize", "%s: output announces %zu bytes of edge data, expected %zu", what, se, want_se);
  return m;
}
static void same_graph(const Adj& got, const Adj& exp, const char* what) {
  if (got.n != exp.n) vsim_fail("c12.convert.nodes", "%s: result has %u nodes, expected %u", what, got.n, exp.n);
  if (got.edges() != exp.edges()) vsim_fail("c12.convert.edges", "%s: result has %zu edges, expected %zu", what, got.edges(), exp.edges());
  for (uint32_t i = 0; i < exp.n; i++) if (got.out[i] != exp.out[i]) {
    std::string g, e; for (auto& x : got.out[i]) { g += " " + std::to_string(x.first) + ":" + std::to_string(x.second); if (g.size() > 120) break; } for (auto& x : exp.out[i]) { e += " " + std::to_string(x.first) + ":" + std::to_string(x.second); if (e.size() > 120) break; }
    vsim_fail("c12.convert.content", "%s: edges of node %u are {%s }, expected {%s } (dst:weight)", what, i, g.c_str(), e.c_str());
  }
}

int main() {
  int conv = (int)vsim_param("conv", 0, NCONV - 1);
  vsim_note("component", "graph-convert -%s", conv_names[conv]);
  vsim_enable_fault(VF_SHORT_WRITE, 0.2, 0.9);
  vsim_enable_fault(VF_SHORT_READ, 0.2, 0.9);
  vsim_set_budget(8000000);
  // edge type: 0 void, 1 uint32, 2 int32, 3 int64, 4 uint64
  static const char* tnames[] = {"void", "uint32", "int32", "int64", "uint64"};
  static const size_t tsize[] = {0, 4, 4, 8, 8};
  int et = (int)wl_range(0, 4);
  if ((conv == DIMACS2GR || conv == MTX2GR || conv == GR2DIMACS || conv == GR2MTX || conv == GR2SORTW || conv == GR2RANDW || conv == GR2BIG) && et == 0) et = 1;   // no void specialisation
  bool wd = et != 0; size_t se = tsize[et];
  gr::Model m = gr::generate(tier() ? 400 : 60, false);
  uint64_t wmax = et == 1 ? 4000000000ull : et == 2 ? 2000000000ull : 1ull << 40;
  if (conv == DIMACS2GR || conv == GR2DIMACS) wmax = 2000000000ull;           // the dimacs reader parses weights as int32
  if (conv == MTX2GR || conv == GR2MTX) wmax = 100000;                         // matrix market goes through double with 6 significant digits
  for (auto& e : m.edges) e.data = wd ? (uint64_t)wl_range(wl_chance(10) ? 0 : 1, wl_chance(20) ? (long)wmax : 50) : 0;
  std::string dir = vsim_workdir(), in = dir + "/in", out = dir + "/out";
  std::string mode = std::string("-") + conv_names[conv], ty = std::string("-edgeType=") + tnames[et];
  vsim_note("plan", "conv=%s type=%s nodes=%u edges=%zu", conv_names[conv], tnames[et], m.n, m.edges.size());
  Adj model = adj_of(m, wd);
  char what[160]; snprintf(what, sizeof what, "graph-convert -%s -edgeType=%s (%u nodes, %zu edges)", conv_names[conv], tnames[et], m.n, m.edges.size());

  if (conv <= MTX2GR) {
    // ---------------- text -> binary ----------------
    std::ostringstream t; uint32_t n = m.n;
    // the order of lines is free: shuffle so that the largest id may appear as a source or only as a destination, early or late
    std::vector<gr::Edge> es = m.edges; for (size_t i = es.size(); i > 1; i--) std::swap(es[i - 1], es[wl_range(0, (long)i - 1)]);
    bool crlf = wl_chance(20); const char* nl = crlf ? "\r\n" : "\n";
    Adj expect;
    if (conv == EL2GR || conv == CSV2GR) {
      // ids with gaps: stretch every id by a factor so that some ids are never mentioned
      uint32_t stretch = wl_chance(40) ? (uint32_t)wl_range(2, 5) : 1, shift = wl_chance(30) ? (uint32_t)wl_range(1, 7) : 0;
      auto id = [&](uint32_t x) { return x * stretch + shift; };
      uint32_t maxid = 0; for (auto& e : es) maxid = std::max({maxid, id(e.src), id(e.dst)});
      expect.n = maxid + 1; expect.out.resize(expect.n);   // "infer node count from the largest id"; an input without edges gives one node
      if (conv == CSV2GR) t << "source,target" << (wd ? ",weight" : "") << nl;   // label line, always skipped by the tool
      char d = conv == CSV2GR ? ',' : ' ';
      for (auto& e : es) {
        if (conv == EL2GR && wl_chance(8)) t << "# comment " << e.src << nl;
        if (wl_chance(5)) t << nl;
        if (conv == EL2GR && wl_chance(10)) t << "  ";
        t << id(e.src);
        if (conv == CSV2GR && wl_chance(30)) t << " ";
        t << d;
        if (conv == CSV2GR && wl_chance(30)) t << " ";
        t << id(e.dst);
        if (wd) { t << d; if (et == 2 && wl_chance(10) && e.data) { t << "-" << e.data; expect.out[id(e.src)].insert({id(e.dst), (uint64_t)(uint32_t)(-(int32_t)e.data)}); } else { t << e.data; expect.out[id(e.src)].insert({id(e.dst), e.data}); } }
        else expect.out[id(e.src)].insert({id(e.dst), 0});
        if (conv == EL2GR && wl_chance(10)) t << " 77 extra";   // surplus columns are ignored
        t << nl;
      }
      if (wl_chance(30)) t << nl;
    } else if (conv == DIMACS2GR) {
      expect = model;
      t << "c generated" << nl << "p sp " << n << " " << es.size() << nl;
      for (auto& e : es) { if (wl_chance(8)) t << "c note" << nl; t << "a " << e.src + 1 << " " << e.dst + 1 << " " << e.data << nl; }
    } else {
      expect = model;
      t << "%%MatrixMarket matrix coordinate real general" << nl << "% generated" << nl << n << " " << n << " " << es.size() << nl;
      for (auto& e : es) t << e.src + 1 << " " << e.dst + 1 << " " << e.data << nl;
    }
    if ((conv == DIMACS2GR || conv == MTX2GR) && n == 0) { vsim_probe("skipped_empty"); return 0; }   // ids are 1-based: a graph without nodes has no valid line
    spit(in, t.str());
    int rc = run_convert({"graph-convert", mode, ty, in, out});
    if (rc) vsim_fail("c12.convert.exit", "%s exited with status %d", what, rc);
    gr::Model r = load_gr(out, what, se);
    same_graph(adj_of(r, wd), expect, what);
  } else if (conv <= GR2ADJ) {
    // ---------------- binary -> text ----------------
    int version = (int)wl_range(1, 2);
    gr::write_file(in, gr::encode(m, version, se));
    int rc = run_convert({"graph-convert", mode, ty, in, out});
    if (rc) vsim_fail("c12.convert.exit", "%s exited with status %d", what, rc);
    std::istringstream t(slurp_file(out)); std::string line; Adj got; got.n = m.n; got.out.resize(m.n);
    auto bad = [&](const std::string& l) { vsim_fail("c12.convert.text", "%s: unexpected line '%.80s' in the text output", what, l.c_str()); };
    bool header_seen = false; size_t lines = 0;
    while (std::getline(t, line)) {
      lines++;
      std::istringstream ls(line);
      if (conv == GR2DIMACS) {
        std::string tag; ls >> tag;
        if (tag == "p") { std::string sp; uint64_t hn, he; ls >> sp >> hn >> he; if (hn != m.n || he != m.edges.size()) vsim_fail("c12.convert.header", "%s: dimacs header announces %lu nodes / %lu edges", what, (unsigned long)hn, (unsigned long)he); header_seen = true; continue; }
        if (tag != "a") bad(line);
        uint64_t s, d; long long w; if (!(ls >> s >> d >> w) || s < 1 || d < 1 || s > m.n || d > m.n) bad(line);
        got.out[s - 1].insert({(uint32_t)(d - 1), (uint64_t)w});
      } else if (conv == GR2MTX) {
        if (!header_seen) { uint64_t a, b, c; if (!(ls >> a >> b >> c) || a != m.n || b != m.n || c != m.edges.size()) vsim_fail("c12.convert.header", "%s: matrix-market size line '%s'", what, line.c_str()); header_seen = true; continue; }
        uint64_t s, d; double w; if (!(ls >> s >> d >> w) || s < 1 || d < 1 || s > m.n || d > m.n) bad(line);
        got.out[s - 1].insert({(uint32_t)(d - 1), (uint64_t)(w + 0.5)});
      } else if (conv == GR2ADJ) {
        uint64_t s, d; if (!(ls >> s) || s >= m.n) bad(line);
        while (ls >> d) { if (d >= m.n) bad(line); got.out[s].insert({(uint32_t)d, 0}); }
      } else {
        uint64_t off = conv == GR2EL1 ? 1 : 0, s, d; long long w = 0;
        if (!(ls >> s >> d) || s < off || d < off || s - off >= m.n || d - off >= m.n) bad(line);
        if (wd) { if (et == 4) { unsigned long long uw; if (!(ls >> uw)) bad(line); w = (long long)uw; } else if (!(ls >> w)) bad(line); }
        got.out[s - off].insert({(uint32_t)(d - off), (uint64_t)w});
      }
    }
    if (conv == GR2DIMACS && !header_seen) vsim_fail("c12.convert.header", "%s: no problem line in the dimacs output", what);
    Adj expect = conv == GR2ADJ ? adj_of(m, false) : model;
    same_graph(got, expect, what);
  } else {
    // ---------------- binary -> binary transformations ----------------
    int version = (int)wl_range(1, 2);
    gr::write_file(in, gr::encode(m, version, se));
    std::vector<std::string> args = {"graph-convert", mode, ty, in, out};
    long maxv = wl_range(2, 1000), minv = wl_range(1, maxv);
    if (conv == GR2RANDW) { args.push_back("-maxValue=" + std::to_string(maxv)); args.push_back("-minValue=" + std::to_string(minv)); }
    if (conv == GR2RING || conv == GR2LINE) args.push_back("-maxValue=" + std::to_string(maxv));
    if (conv == GR2RAND) args.push_back("-outputNodePermutation=" + dir + "/perm");
    if ((conv == GR2RING || conv == GR2LINE) && m.n == 0) { vsim_probe("skipped_empty"); return 0; }   // "(i, i-1) for all i": nothing to add, size-1 underflows by construction
    int rc = run_convert(args);
    if (rc) vsim_fail("c12.convert.exit", "%s exited with status %d", what, rc);
    gr::Model r = load_gr(out, what, se);
    Adj got = adj_of(r, wd), expect; expect.n = m.n; expect.out.resize(m.n);
    switch (conv) {
    case GR2T: for (auto& e : m.edges) expect.out[e.dst].insert({e.src, wd ? e.data : 0}); same_graph(got, expect, what); break;
    case GR2S: {
      // symmetrise: every edge and its reverse (a self loop stays single); weights travel with the edge
      Adj lo = expect, hi = expect;
      for (auto& e : m.edges) { expect.out[e.src].insert({e.dst, wd ? e.data : 0}); if (e.src != e.dst) expect.out[e.dst].insert({e.src, wd ? e.data : 0}); }
      same_graph(got, expect, what); break; }
    case GR2C: {
      // clean: no self loops, one edge per (src, dst); the surviving weight is one of the duplicates' weights
      if (got.n != m.n) vsim_fail("c12.convert.nodes", "%s: result has %u nodes, expected %u", what, got.n, m.n);
      for (uint32_t i = 0; i < m.n; i++) {
        std::map<uint32_t, std::set<uint64_t>> ws; for (auto& x : model.out[i]) if (x.first != i) ws[x.first].insert(x.second);
        std::set<uint32_t> seen;
        for (auto& x : got.out[i]) {
          if (x.first == i) vsim_fail("c12.convert.clean", "%s: self loop %u->%u survives", what, i, i);
          if (!seen.insert(x.first).second) vsim_fail("c12.convert.clean", "%s: duplicate edge %u->%u survives", what, i, x.first);
          if (!ws.count(x.first)) vsim_fail("c12.convert.clean", "%s: edge %u->%u is not in the input", what, i, x.first);
          if (wd && !ws[x.first].count(x.second)) vsim_fail("c12.convert.clean", "%s: edge %u->%u carries weight %lu, which none of its input copies has", what, i, x.first, (unsigned long)x.second);
        }
        if (seen.size() != ws.size()) vsim_fail("c12.convert.clean", "%s: node %u keeps %zu distinct neighbours, the input has %zu", what, i, seen.size(), ws.size());
      }
      break; }
    case GR2SORTDST: case GR2SORTW: {
      same_graph(got, model, what);
      uint32_t src = 0; size_t k = 0; uint64_t prev = 0; bool first = true;
      for (auto& e : r.edges) {
        if (first || e.src != src) { src = e.src; first = false; prev = conv == GR2SORTDST ? e.dst : e.data; k++; continue; }
        uint64_t key = conv == GR2SORTDST ? e.dst : e.data;
        bool less = (conv == GR2SORTW && (et == 2 || et == 3)) ? ((et == 2 ? (int64_t)(int32_t)key < (int64_t)(int32_t)prev : (int64_t)key < (int64_t)prev)) : key < prev;
        if (less) vsim_fail("c12.convert.sorted", "%s: edges of node %u are not sorted by %s", what, src, conv == GR2SORTDST ? "destination" : "weight");
        prev = key;
      }
      break; }
    case GR2RANDW: {
      Adj a = adj_of(r, false), b = adj_of(m, false); same_graph(a, b, what);
      for (auto& e : r.edges) { long long v = (et == 2) ? (long long)(int32_t)e.data : (long long)e.data; if (v < minv || v > maxv) vsim_fail("c12.convert.weight-range", "%s: weight %lld outside [%ld,%ld]", what, v, minv, maxv); }
      break; }
    case GR2RAND: {
      // random relabelling: read the permutation the tool writes (old id, new id) and apply it to the model
      std::istringstream pf(slurp_file(dir + "/perm")); std::string line; std::vector<uint32_t> perm(m.n, ~0u); std::set<uint32_t> used;
      while (std::getline(pf, line)) { unsigned long a, b; if (sscanf(line.c_str(), "%lu,%lu", &a, &b) != 2 || a >= m.n || b >= m.n) vsim_fail("c12.convert.perm", "%s: bad permutation line '%s'", what, line.c_str()); perm[a] = (uint32_t)b; used.insert((uint32_t)b); }
      if (used.size() != m.n) vsim_fail("c12.convert.perm", "%s: the permutation file names %zu distinct targets for %u nodes", what, used.size(), m.n);
      for (auto& e : m.edges) expect.out[perm[e.src]].insert({perm[e.dst], wd ? e.data : 0});
      same_graph(got, expect, what); break; }
    case GR2RING: case GR2LINE: {
      expect = model;
      for (uint32_t i = 0; i < m.n; i++) { if (conv == GR2LINE && i == 0) continue; uint32_t d = i == 0 ? m.n - 1 : i - 1; expect.out[i].insert({d, wd ? (uint64_t)(et == 2 ? (uint32_t)maxv : maxv) : 0}); }
      same_graph(got, expect, what); break; }
    default: {   // GR2BIG: same topology, every weight byte-swapped
      for (auto& e : m.edges) { uint64_t v = e.data, s = 0; for (size_t b = 0; b < se; b++) s |= ((v >> (8 * b)) & 0xff) << (8 * (se - 1 - b)); expect.out[e.src].insert({e.dst, s}); }
      same_graph(got, expect, what); break; }
    }
  }
  vsim_probe_add("edges_checked", m.edges.size() + 1);
  vsim_probe(conv_names[conv]);
  return 0;
}
