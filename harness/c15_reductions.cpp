// C15 — reductions and concurrently filled collections give the sequential answer.
#include "hcommon.h"
#include "galois/Galois.h"
#include "galois/Reduction.h"
#include "galois/AtomicHelpers.h"
#include "galois/DynamicBitset.h"
#include "galois/UnionFind.h"
#include "galois/Bag.h"
#include "galois/PerThreadContainer.h"
#include <algorithm>
#include <cmath>
#include <limits>
#include <memory>
#include <numeric>
#include <set>

constexpr int MAXU = 400;
static int nthr;
struct Upd { int owner; int op; long v; };
static std::vector<Upd> upd;

static void gen_updates(int n, long lo, long hi) {
  upd.clear();
  int skew = (int)wl_range(0, 2);
  for (int i = 0; i < n; i++) {
    int owner = skew == 0 ? (int)wl_range(0, nthr - 1) : skew == 1 ? 0 : (wl_chance(70) ? nthr - 1 : (int)wl_range(0, nthr - 1));
    upd.push_back(Upd{owner, (int)wl_range(0, 2), wl_range(lo, hi)});
  }
}
template <class F> static void apply_parallel(F f) {
  galois::on_each([&](unsigned tid, unsigned) {
    for (size_t i = 0; i < upd.size(); i++) if (upd[i].owner == (int)tid) { f(upd[i], i); if ((i & 3) == 0) vsim_yield(); }
  });
}

// ---- 0: GAccumulator ----
template <class T> static void accum(const char* tn, long lo, long hi) {
  gen_updates((int)wl_range(0, 60), lo, hi);
  galois::GAccumulator<T> acc;
  T expect = T{0};
  for (auto& u : upd) { if (u.op == 1) expect = expect - (T)u.v; else expect = expect + (T)u.v; }
  int minus = 0; for (auto& u : upd) minus += (u.op == 1 && u.v != 0);
  apply_parallel([&](const Upd& u, size_t) { if (u.op == 0) acc += (T)u.v; else if (u.op == 1) acc -= (T)u.v; else acc.update((T)u.v); });
  T got = acc.reduce();
  if (got != expect) vsim_fail(minus ? "c15.accumulator.minus" : "c15.accumulator", "GAccumulator<%s>: reduce() = %.17g, sequential fold = %.17g over %zu updates (%d of them -=) on %d threads", tn, (double)got, (double)expect, upd.size(), minus, nthr);
  acc.reset();
  if (acc.reduce() != T{0}) vsim_fail("c15.reset", "GAccumulator<%s>: reduce() after reset() is not the identity", tn);
}
// ---- 1: max / min ----
template <class T> static void maxmin(const char* tn, long lo, long hi, double scale) {
  gen_updates((int)wl_range(1, 50), lo, hi);
  galois::GReduceMax<T> mx; galois::GReduceMin<T> mn;
  T emx = (T)(upd[0].v * scale), emn = emx;
  for (auto& u : upd) { T x = (T)(u.v * scale); emx = std::max(emx, x); emn = std::min(emn, x); }
  apply_parallel([&](const Upd& u, size_t) { T x = (T)(u.v * scale); mx.update(x); mn.update(x); });
  T gmx = mx.reduce(), gmn = mn.reduce();
  if (gmx != emx) vsim_fail(hi < 0 ? "c15.reducemax.negative" : "c15.reducemax", "GReduceMax<%s>: reduce() = %.17g, true maximum %.17g (%zu updates in [%ld,%ld]*%g)", tn, (double)gmx, (double)emx, upd.size(), lo, hi, scale);
  if (gmn != emn) vsim_fail("c15.reducemin", "GReduceMin<%s>: reduce() = %.17g, true minimum %.17g", tn, (double)gmn, (double)emn);
}
// ---- 2: logical and/or, user-defined reducible, move-only ----
struct MO { std::unique_ptr<long> p; MO() : p(new long(0)) {} explicit MO(long v) : p(new long(v)) {} MO(MO&&) = default; MO& operator=(MO&&) = default; };
static void logical_and_user() {
  gen_updates((int)wl_range(0, 40), 0, 9);
  galois::GReduceLogicalAnd land; galois::GReduceLogicalOr lor;
  bool ea = true, eo = false;
  int thr = (int)wl_range(0, 10);
  for (auto& u : upd) { bool b = u.v >= thr; ea = ea && b; eo = eo || b; }
  auto mergeFn = [](std::pair<long, long> a, std::pair<long, long> b) { return std::make_pair(a.first + b.first, a.second ^ b.second); };
  auto idFn = []() { return std::make_pair(0L, 0L); };
  auto user = galois::make_reducible(mergeFn, idFn);
  auto moMerge = [](MO& a, MO&& b) { return MO(*a.p + *b.p); };
  auto moId = []() { return MO(0); };
  auto mo = galois::make_reducible(moMerge, moId);
  long es = 0, ex = 0;
  for (auto& u : upd) { es += u.v * 3; ex ^= (u.v * 2654435761L); }
  apply_parallel([&](const Upd& u, size_t) { bool b = u.v >= thr; land.update(b); lor.update(b); user.update(std::make_pair(u.v * 3, u.v * 2654435761L)); mo.update(MO(u.v * 3)); });
  if (land.reduce() != ea) vsim_fail("c15.logical", "GReduceLogicalAnd gives %d, fold gives %d", (int)land.reduce(), (int)ea);
  if (lor.reduce() != eo) vsim_fail("c15.logical", "GReduceLogicalOr gives %d, fold gives %d", (int)lor.reduce(), (int)eo);
  auto r = user.reduce();
  if (r.first != es || r.second != ex) vsim_fail("c15.user-reducible", "make_reducible(sum,xor): got (%ld,%ld) expected (%ld,%ld)", r.first, r.second, es, ex);
  long mr = *mo.reduce().p;
  if (mr != es) vsim_fail("c15.move-only", "move-only reducible: got %ld expected %ld", mr, es);
  user.reset(); if (user.reduce() != idFn()) vsim_fail("c15.reset", "user reducible not identity after reset");
}
// ---- 3: concurrently filled collections ----
static void collections() {
  gen_updates((int)wl_range(0, 120), -50, 50);
  galois::InsertBag<long> bag; galois::PerThreadVector<long> pv; galois::PerThreadDeque<long> pd; galois::PerThreadSet<long> ps; galois::PerThreadList<long> pl;
  std::multiset<long> expect; std::set<long> eset;
  for (size_t i = 0; i < upd.size(); i++) { expect.insert(upd[i].v * 1000 + (long)i); eset.insert(upd[i].v); }
  apply_parallel([&](const Upd& u, size_t i) { long x = u.v * 1000 + (long)i; bag.push(x); pv.get().push_back(x); pd.get().push_front(x); ps.get().insert(u.v); pl.get().push_back(x); });
  // what was filled by n threads is still all there when fewer (or more) threads are active afterwards
  int after = wl_chance(40) ? (int)wl_range(1, (int)galois::substrate::getThreadPool().getMaxThreads()) : nthr;
  if (after != nthr) galois::setActiveThreads(after);
  struct Restore { ~Restore() { galois::setActiveThreads(nthr); } } restore;
  auto cmp = [&](const char* what, std::multiset<long> got) { if (got != expect) vsim_fail("c15.collection", "%s holds %zu elements, sequential model %zu (or different values; filled by %d threads, %d active now)", what, got.size(), expect.size(), nthr, (int)galois::getActiveThreads()); };
  cmp("InsertBag", std::multiset<long>(bag.begin(), bag.end()));
  cmp("PerThreadVector", std::multiset<long>(pv.begin_all(), pv.end_all()));
  cmp("PerThreadDeque", std::multiset<long>(pd.begin_all(), pd.end_all()));
  cmp("PerThreadList", std::multiset<long>(pl.begin_all(), pl.end_all()));
  if (pv.size_all() != expect.size() || pd.size_all() != expect.size() || pl.size_all() != expect.size())
    vsim_fail("c15.collection", "size_all of PerThreadVector/Deque/List is %zu/%zu/%zu, %zu elements were inserted by %d threads (%d active now)", (size_t)pv.size_all(), (size_t)pd.size_all(), (size_t)pl.size_all(), expect.size(), nthr, (int)galois::getActiveThreads());
  if (pv.empty_all() != expect.empty() || pd.empty_all() != expect.empty()) vsim_fail("c15.collection", "empty_all disagrees with the %zu inserted elements", expect.size());
  std::set<long> gs; for (unsigned t = 0; t < ps.numRows(); ++t) for (long x : ps.get(t)) gs.insert(x);  // (global iteration of PerThreadSet does not compile in this tree)
  if (gs != eset) vsim_fail("c15.collection", "PerThreadSet union differs from std::set model");
  // parallel iteration over the filled bag sees every element once
  galois::GAccumulator<long> sum; long es = 0; for (long x : expect) es += x;
  galois::do_all(galois::iterate(bag), [&](long x) { sum += x; }, galois::steal(), galois::chunk_size<2>());
  // known finding (known_findings.txt): parallel iteration over a bag uses per-thread local iterators, so with FEWER active
  // threads than filled it the heads of the now inactive threads are silently skipped; every other case stays fatal
  bool fewer = (int)galois::getActiveThreads() < nthr;
  auto bag_loop_wrong = [&](const char* what, long got) {
    if (fewer && vsim_param_fixed("exercise_known", 0)) vsim_fail("c15.bag-fewer-threads", "%s: the loop saw a sum of %ld, the bag holds %ld (filled by %d threads, %d active now)", what, got, es, nthr, (int)galois::getActiveThreads());
    if (fewer) vsim_known("insertbag-doall-fewer-threads", "do_all over an InsertBag filled by more threads than are active now skips the inactive threads' elements");
    else vsim_fail("c15.collection", "%s sums to %ld, expected %ld", what, got, es);
  };
  if (sum.reduce() != es) bag_loop_wrong("do_all over InsertBag", sum.reduce());
  // the two-bag idiom of bulk-synchronous applications: the filled bag is swapped / moved into another one, further
  // per-thread objects (reducers, a second loop) are created afterwards, and the contents must still be the same
  {
    int how = (int)wl_range(0, 2);
    galois::InsertBag<long> cur;
    if (how == 0) bag.swap(cur); else if (how == 1) cur.swap(bag); else { galois::InsertBag<long> tmp(std::move(bag)); cur.swap(tmp); }
    galois::GAccumulator<long> s2; galois::GReduceMax<long> mx; galois::GAccumulator<size_t> cnt;
    std::vector<galois::GAccumulator<long>> grow;   // growing a vector of reducers moves them
    for (int i = 0; i < (int)wl_range(1, 5); i++) grow.emplace_back();
    galois::do_all(galois::iterate(cur), [&](long x) { s2 += x; mx.update(x); cnt += 1; for (auto& g : grow) g += 1; }, galois::steal(), galois::chunk_size<2>());
    cmp(how == 2 ? "InsertBag after move construction" : "InsertBag after swap", std::multiset<long>(cur.begin(), cur.end()));
    if (s2.reduce() != es || cnt.reduce() != expect.size()) { if (fewer) bag_loop_wrong("", 0); else vsim_fail("c15.collection", "do_all over the swapped InsertBag: sum %ld count %zu, expected %ld / %zu", s2.reduce(), cnt.reduce(), es, expect.size()); }
    for (auto& g : grow) if (g.reduce() != (long)cnt.reduce()) vsim_fail("c15.reduce.moved", "a reducer that was moved while a vector grew reduces to %ld, the loop ran %zu iterations", g.reduce(), cnt.reduce());
    if (how != 2 && !bag.empty()) vsim_fail("c15.collection", "the other side of InsertBag::swap is not empty");
  }
}
// ---- 4: DynamicBitSet ----
static void bitset() {
  size_t nbits = (size_t)wl_range(1, 300);
  galois::DynamicBitSet bs; bs.resize(nbits);
  std::vector<bool> model(nbits, false);
  // phase 1: concurrent set(i) only
  gen_updates((int)wl_range(0, 150), 0, (long)nbits - 1);
  for (auto& u : upd) model[u.v] = true;
  std::vector<int> first_setter(nbits, 0);
  apply_parallel([&](const Upd& u, size_t) { bool old = bs.set((size_t)u.v); if (!old) obs_add(&first_setter[u.v], 1); });
  for (size_t i = 0; i < nbits; i++) {
    if (bs.test(i) != model[i]) vsim_fail("c15.bitset.set", "bit %zu is %d after concurrent set(), model %d (nbits=%zu)", i, (int)bs.test(i), (int)model[i], nbits);
    if (model[i] && first_setter[i] != 1) vsim_fail("c15.bitset.set-return", "bit %zu: %d callers were told they set it first", i, first_setter[i]);
  }
  // phase 2: concurrent reset(i) only
  gen_updates((int)wl_range(0, 100), 0, (long)nbits - 1);
  for (auto& u : upd) model[u.v] = false;
  apply_parallel([&](const Upd& u, size_t) { bs.reset((size_t)u.v); });
  for (size_t i = 0; i < nbits; i++) if (bs.test(i) != model[i]) vsim_fail("c15.bitset.reset", "bit %zu wrong after concurrent reset(i)", i);
  // sequential range / bulk operations at generated alignments
  auto count_model = [&]() { uint64_t c = 0; for (bool b : model) c += b; return c; };
  if (bs.count() != count_model()) vsim_fail("c15.bitset.count", "count() = %lu, model %lu", (unsigned long)bs.count(), (unsigned long)count_model());
  auto offs = bs.getOffsets(); std::vector<uint32_t> eo; for (size_t i = 0; i < nbits; i++) if (model[i]) eo.push_back((uint32_t)i);
  if (offs != eo) vsim_fail("c15.bitset.offsets", "getOffsets() returns %zu offsets, model %zu (or different)", offs.size(), eo.size());
  for (int r = 0; r < 6; r++) {
    for (size_t i = 0; i < nbits; i++) if (wl_chance(60)) { bs.set(i); model[i] = true; }
    size_t b = (size_t)wl_range(0, (long)nbits - 1), e = (size_t)wl_range((long)b, (long)nbits - 1);
    if (wl_chance(30)) b = b / 64 * 64;
    if (wl_chance(30)) e = std::min(nbits - 1, e / 64 * 64 + 63);
    bs.reset(b, e);
    for (size_t i = b; i <= e; i++) model[i] = false;
    for (size_t i = 0; i < nbits; i++) if (bs.test(i) != model[i]) vsim_fail("c15.bitset.reset-range", "reset(%zu,%zu) on %zu bits: bit %zu is %d, model %d", b, e, nbits, i, (int)bs.test(i), (int)model[i]);
  }
  galois::DynamicBitSet o1, o2; o1.resize(nbits); o2.resize(nbits); std::vector<bool> m1(nbits), m2(nbits);
  for (size_t i = 0; i < nbits; i++) { if (wl_chance(50)) { o1.set(i); m1[i] = true; } if (wl_chance(50)) { o2.set(i); m2[i] = true; } }
  bs.bitwise_or(o1); for (size_t i = 0; i < nbits; i++) model[i] = model[i] || m1[i];
  bs.bitwise_and(o2); for (size_t i = 0; i < nbits; i++) model[i] = model[i] && m2[i];
  bs.bitwise_xor(o1); for (size_t i = 0; i < nbits; i++) model[i] = model[i] != m1[i];
  for (size_t i = 0; i < nbits; i++) if (bs.test(i) != model[i]) vsim_fail("c15.bitset.bitwise", "bitwise_or/and/xor: bit %zu differs from the model", i);
  bs.bitwise_and(o1, o2); for (size_t i = 0; i < nbits; i++) model[i] = m1[i] && m2[i];
  for (size_t i = 0; i < nbits; i++) if (bs.test(i) != model[i]) vsim_fail("c15.bitset.bitwise", "bitwise_and(a,b): bit %zu differs", i);
  bs.bitwise_xor(o1, o2); for (size_t i = 0; i < nbits; i++) model[i] = m1[i] != m2[i];
  for (size_t i = 0; i < nbits; i++) if (bs.test(i) != model[i]) vsim_fail("c15.bitset.bitwise", "bitwise_xor(a,b): bit %zu differs", i);
  if (bs.count() != count_model()) vsim_fail("c15.bitset.count", "count() after bulk ops differs");
  bs.reset(); if (bs.count() != 0) vsim_fail("c15.bitset.reset", "reset() leaves bits set");
}
// ---- 5: atomic helpers ----
static void atomics() {
  gen_updates((int)wl_range(1, 80), -1000, 1000);
  std::atomic<long> amin(std::numeric_limits<long>::max()), amax(std::numeric_limits<long>::min()), aadd(0), asub(0);
  std::atomic<unsigned> uadd(0);
  long emin = std::numeric_limits<long>::max(), emax = std::numeric_limits<long>::min(), es = 0; unsigned eu = 0;
  for (auto& u : upd) { emin = std::min(emin, u.v); emax = std::max(emax, u.v); es += u.v; eu += (unsigned)(u.v + 1000); }
  apply_parallel([&](const Upd& u, size_t) { galois::atomicMin(amin, u.v); galois::atomicMax(amax, u.v); galois::atomicAdd(aadd, u.v); galois::atomicSubtract(asub, u.v); galois::atomicAdd(uadd, (unsigned)(u.v + 1000)); });
  if (amin != emin || amax != emax) vsim_fail("c15.atomic.minmax", "atomicMin/Max: got %ld/%ld expected %ld/%ld", amin.load(), amax.load(), emin, emax);
  if (aadd != es || asub != -es || uadd != eu) vsim_fail("c15.atomic.add", "atomicAdd/Subtract lost an update: %ld/%ld/%u expected %ld/%ld/%u", aadd.load(), asub.load(), uadd.load(), es, -es, eu);
}
// ---- 6: concurrent union-find ----
struct UF : public galois::UnionFindNode<UF> { UF() : galois::UnionFindNode<UF>(this) {} };
static void unionfind() {
  int n = (int)wl_range(2, 40);
  std::vector<UF> nodes(n);
  std::vector<int> par(n); std::iota(par.begin(), par.end(), 0);
  auto find = [&](int x) { while (par[x] != x) x = par[x] = par[par[x]]; return x; };
  gen_updates((int)wl_range(0, 80), 0, (long)n * n - 1);
  int emerges = 0;
  for (auto& u : upd) { int a = (int)(u.v / n), b = (int)(u.v % n); int ra = find(a), rb = find(b); if (ra != rb) { par[ra] = rb; emerges++; } }
  int merges = 0;
  apply_parallel([&](const Upd& u, size_t i) {
    int a = (int)(u.v / n), b = (int)(u.v % n);
    if (nodes[a].merge(&nodes[b])) obs_add(&merges, 1);
    if (i % 5 == 0) nodes[a].findAndCompress();
    if (i % 7 == 0) nodes[b].compress();
  });
  if (merges != emerges) vsim_fail("c15.unionfind.merges", "concurrent union-find performed %d successful merges, serial union-find %d", merges, emerges);
  for (int i = 0; i < n; i++) for (int j = i + 1; j < n; j++) {
    bool same = nodes[i].find() == nodes[j].find(), esame = find(i) == find(j);
    if (same != esame) vsim_fail("c15.unionfind.partition", "nodes %d and %d: concurrent result says %s, serial union-find says %s", i, j, same ? "same" : "different", esame ? "same" : "different");
  }
  for (int i = 0; i < n; i++) { UF* r = nodes[i].find(); if (!r->isRep()) vsim_fail("c15.unionfind.rep", "find() of node %d is not a representative", i); }
}

int main() {
  int cap = tier() ? 16 : 8;
  int maxT = (int)vsim_param("maxthreads", 1, cap);
  Machine m = draw_machine(maxT);
  int scen = (int)vsim_param("scenario", 0, 6);
  static const char* sn[] = {"GAccumulator", "GReduceMax/Min", "logical+user+move-only", "collections", "DynamicBitSet", "atomic helpers", "UnionFind"};
  vsim_note("component", "scenario=%s", sn[scen]);
  vsim_enable_fault(VF_CAS_WEAK, 0.01, 0.3);
  vsim_enable_fault(VF_PLAIN_PREEMPT, 0.02, 0.6);   // plain shared data of the library (behind locks, in shared helper state) becomes preemptible
  vsim_plain_preempt_window(1);   // operators here keep no shared non-atomic bookkeeping of their own
  vsim_set_budget(4000000);
  galois::SharedMemSys G;
  int hw = (int)galois::substrate::getThreadPool().getMaxThreads();
  nthr = (int)wl_range(1, hw);
  galois::setActiveThreads(nthr); nthr = (int)galois::getActiveThreads();
  int rounds = (int)wl_range(1, 3);
  for (int r = 0; r < rounds; r++) {
    switch (scen) {
    case 0: { int t = (int)wl_range(0, 3); if (t == 0) accum<int>("int", -1000, 1000); else if (t == 1) accum<long>("long", -1000000000L, 1000000000L); else if (t == 2) accum<unsigned>("unsigned", 0, 100000); else accum<double>("double", -4096, 4096); break; }
    case 1: { int t = (int)wl_range(0, 5);
      if (t == 0) maxmin<int>("int", -500, 500, 1); else if (t == 1) maxmin<int>("int", -900, -1, 1); else if (t == 2) maxmin<double>("double", -500, 500, 0.25);
      else if (t == 3) maxmin<double>("double", -900, -1, 0.5); else if (t == 4) maxmin<float>("float", -64, -1, 0.125); else maxmin<unsigned long>("unsigned long", 0, 1000000, 1); break; }
    case 2: logical_and_user(); break;
    case 3: collections(); break;
    case 4: bitset(); break;
    case 5: atomics(); break;
    default: unionfind(); break;
    }
  }
  vsim_note("plan", "threads=%d rounds=%d", nthr, rounds);
  return 0;
}
