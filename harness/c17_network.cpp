// C17 — serialisation round-trips; tagged messages arrive exactly once, in order, intact; host
// barriers separate phases.  1-4 simulated hosts (forked, one shared scheduler) run the real
// NetworkInterfaceBuffered + NetworkIOMPI + HostFence/HostBarrier over the simulated MPI.
#include "hcommon.h"
#include "galois/DistGalois.h"
#include "galois/Galois.h"
#include "galois/DynamicBitset.h"
#include "galois/gdeque.h"
#include "galois/runtime/Network.h"
#include "galois/runtime/Serialize.h"
#include <map>

namespace grt = galois::runtime;
constexpr int MAXH = 4, MAXTAG = 3, MAXS = 4;
constexpr uint32_t TAG0 = 100;   // application tags stay clear of evilPhase (1, 2, 3, ...) used by HostFence

// Plan drawn by the parent before the fork: every host knows what everybody sends, so the receiver
// can check exactly-once / per-stream order / payload without talking to the sender.
struct MsgPlan { int src, dst, tag, thread, kind, phase; uint32_t size; uint32_t seq; uint64_t salt; };
static std::vector<MsgPlan> plan[2];   // per phase
static int nhosts, nphases, nsenders;

static uint64_t mix(uint64_t x) { x ^= x >> 33; x *= 0xff51afd7ed558ccdULL; x ^= x >> 33; x *= 0xc4ceb9fe1a85ec53ULL; return x ^ (x >> 33); }
// string payloads (kinds 1, 2) are NUL-free: the wire format of std::string is NUL-terminated (see the local embedded-NUL probe in main)
static std::vector<uint8_t> bytes_of(const MsgPlan& m) { std::vector<uint8_t> v(m.size); uint64_t s = m.salt; for (auto& b : v) { s = mix(s + 1); b = (uint8_t)s; if (!b && (m.kind == 1 || m.kind == 2)) b = 1; } return v; }

// payload = harness header + typed body of kind k (serialised with the library)
static void build(grt::SendBuffer& b, const MsgPlan& m) {
  grt::gSerialize(b, (uint32_t)m.src, (uint32_t)m.tag, m.seq, m.size, (uint32_t)m.kind, (uint32_t)m.phase);
  std::vector<uint8_t> raw = bytes_of(m);
  switch (m.kind) {
  case 0: grt::gSerialize(b, raw); break;                                                  // vector of POD
  case 1: { std::string s(raw.begin(), raw.end()); grt::gSerialize(b, s, (uint16_t)m.seq); break; }   // string + odd-sized trailer (alignment)
  case 2: { std::vector<std::string> vs; for (size_t i = 0; i < raw.size(); i += 7) vs.emplace_back(raw.begin() + i, raw.begin() + std::min(raw.size(), i + 7)); grt::gSerialize(b, vs); break; }   // vector of non-POD
  case 3: { std::pair<uint8_t, double> p{(uint8_t)m.salt, (double)m.seq * 0.5}; galois::gdeque<uint32_t> dq; for (size_t i = 0; i + 4 <= raw.size(); i += 4) { uint32_t x; memcpy(&x, &raw[i], 4); dq.push_back(x); } grt::gSerialize(b, p, dq); break; }
  case 4: { galois::PODResizeableArray<uint64_t> pa; pa.resize(raw.size() / 8); for (size_t i = 0; i < pa.size(); i++) memcpy(&pa[i], &raw[i * 8], 8); galois::DynamicBitSet bs; bs.resize(raw.size() + 1); for (size_t i = 0; i < raw.size(); i++) if (raw[i] & 1) bs.set(i); grt::gSerialize(b, (uint8_t)7, pa, bs); break; }
  default: { grt::SendBuffer inner; grt::gSerialize(inner, raw, (uint64_t)m.salt); std::vector<std::pair<uint32_t, uint64_t>> vp; for (size_t i = 0; i < raw.size() % 50; i++) vp.push_back({(uint32_t)i, mix(i)}); grt::gSerialize(b, inner, vp, galois::Pair<uint32_t, uint64_t>(m.seq, m.salt)); break; }   // nested buffer, vector of pairs, galois::Pair
  }
  grt::gSerialize(b, (uint32_t)0xC0FFEE);
}
static void check_body(grt::RecvBuffer& rb, const MsgPlan& m, int me) {
  std::vector<uint8_t> raw = bytes_of(m);
  auto bad = [&](const char* what) { vsim_fail("c17.payload", "host %d: message (src %d, tag %d, seq %u, kind %d, %u bytes) deserialises with a different %s", me, m.src, m.tag, m.seq, m.kind, m.size, what); };
  switch (m.kind) {
  case 0: { std::vector<uint8_t> v; grt::gDeserialize(rb, v); if (v != raw) bad("byte vector"); break; }
  case 1: { std::string s; uint16_t t; grt::gDeserialize(rb, s, t); if (s != std::string(raw.begin(), raw.end()) || t != (uint16_t)m.seq) bad("string/trailer"); break; }
  case 2: { std::vector<std::string> vs; grt::gDeserialize(rb, vs); std::string cat; for (auto& s : vs) cat += s; if (cat != std::string(raw.begin(), raw.end()) || vs.size() != (raw.size() + 6) / 7) bad("vector of strings"); break; }
  case 3: { std::pair<uint8_t, double> p; galois::gdeque<uint32_t> dq; grt::gDeserialize(rb, p, dq); if (p.first != (uint8_t)m.salt || p.second != (double)m.seq * 0.5) bad("pair"); size_t i = 0; for (uint32_t x : dq) { uint32_t y; memcpy(&y, &raw[i], 4); if (x != y) bad("gdeque element"); i += 4; } if (i / 4 != raw.size() / 4) bad("gdeque length"); break; }
  case 4: { uint8_t seven; galois::PODResizeableArray<uint64_t> pa; galois::DynamicBitSet bs; grt::gDeserialize(rb, seven, pa, bs); if (seven != 7 || pa.size() != raw.size() / 8) bad("POD array size"); for (size_t i = 0; i < pa.size(); i++) if (memcmp(&pa[i], &raw[i * 8], 8)) bad("POD array element"); if (bs.size() != raw.size() + 1) bad("bitset size"); for (size_t i = 0; i < raw.size(); i++) if (bs.test(i) != (bool)(raw[i] & 1)) bad("bitset bit"); break; }
  default: { std::vector<std::pair<uint32_t, uint64_t>> vp; galois::Pair<uint32_t, uint64_t> gp; std::vector<uint8_t> v; uint64_t salt; grt::gDeserialize(rb, v, salt, vp, gp);   /* a nested buffer is inlined: its contents are read back directly */ if (v != raw || salt != m.salt) bad("nested buffer"); if (vp.size() != raw.size() % 50) bad("vector of pairs"); for (size_t i = 0; i < vp.size(); i++) if (vp[i].first != i || vp[i].second != mix(i)) bad("pair element"); if (gp.first != m.seq || gp.second != m.salt) bad("galois::Pair"); break; }
  }
  uint32_t end = 0; grt::gDeserialize(rb, end);
  if (end != 0xC0FFEE) bad("end marker (bytes consumed != bytes produced)");
  if (rb.r_size() != 0) vsim_fail("c17.payload", "host %d: %zu bytes left after deserialising message (src %d tag %d seq %u)", me, (size_t)rb.r_size(), m.src, m.tag, m.seq);
}

static int hostmain(int me) {
  galois::DistMemSys G;
  auto& net = grt::getSystemNetworkInterface();
  if ((int)net.ID != me || (int)net.Num != nhosts) vsim_fail("c17.identity", "host %d sees ID %u of %u", me, net.ID, net.Num);
  galois::setActiveThreads(nsenders);
  if (me == 0) {
  { // probe: a std::string with an embedded NUL must round-trip like any other value
    std::string z("ab\0cd", 5), back; uint32_t tail = 0;
    grt::SendBuffer b; grt::gSerialize(b, z, (uint32_t)0xC0FFEE); grt::RecvBuffer rb(std::move(b)); grt::gDeserialize(rb, back, tail);
    if (back != z || tail != 0xC0FFEE) vsim_known("string-embedded-nul", "std::string with an embedded NUL does not round-trip: the wire format is NUL-terminated (Serialize.h gSerializeObj/gDeserializeObj for basic_string)");
  }
  // local round trip first (no network): every planned payload must deserialise to itself, at buffer offset 0 and at odd offsets
  for (int ph = 0; ph < nphases; ph++) for (auto& m : plan[ph]) {
    if (m.size > 6000) continue;
    for (int off = 0; off < 3; off++) {
      grt::SendBuffer b; for (int k = 0; k < off; k++) grt::gSerialize(b, (uint8_t)0xEE);
      build(b, m);
      grt::RecvBuffer rb(std::move(b));
      for (int k = 0; k < off; k++) { uint8_t x; grt::gDeserialize(rb, x); }
      uint32_t src, tag, seq, size, kind, phase; grt::gDeserialize(rb, src, tag, seq, size, kind, phase);
      check_body(rb, m, -1 - off);
    }
  }
  }
  // receiver state for all phases (a message of phase p+1 may legitimately arrive right after fence p)
  std::map<std::array<int, 3>, uint32_t> nextseq;   // (phase, src, tag) -> next expected sequence number at this host
  std::vector<int> seen[2]; size_t got[2] = {0, 0}, expect[2] = {0, 0};
  for (int ph = 0; ph < nphases; ph++) { seen[ph].assign(plan[ph].size(), 0); for (auto& m : plan[ph]) if (m.dst == me) expect[ph]++; }
  int cur = 0;              // first phase whose fence this host has not passed yet
  auto drain = [&]() {
    for (int t = 0; t < MAXTAG; t++) {
      for (;;) {
        auto p = net.recieveTagged(TAG0 + t, nullptr);
        if (!p) break;
        grt::RecvBuffer& rb = p->second;
        uint32_t src, tag, seq, size, kind, phase; grt::gDeserialize(rb, src, tag, seq, size, kind, phase);
        if (src != p->first || tag != TAG0 + (uint32_t)t || phase >= (uint32_t)nphases) vsim_fail("c17.routing", "host %d: message claims (src %u, tag %u, phase %u) but was delivered as (src %u, tag %u)", me, src, tag, phase, p->first, TAG0 + t);
        if ((int)phase < cur) vsim_fail("c17.late", "host %d: a message of phase %u (src %u tag %u seq %u) arrived after this host had left the fence of that phase", me, phase, src, tag, seq);
        if ((int)phase > cur) vsim_fail("c17.fence", "host %d: a message of phase %u (src %u tag %u seq %u) arrived although this host has not entered the fence of phase %d yet: its sender left that fence too early", me, phase, src, tag, seq, cur);
        auto& P = plan[phase];
        uint32_t& ns = nextseq[{(int)phase, (int)src, (int)tag}];
        if (seq != ns) vsim_fail(seq < ns ? "c17.duplicate" : "c17.order", "host %d: stream (src %u -> %d, tag %u, phase %u) delivered sequence number %u, expected %u", me, src, me, tag, phase, seq, ns);
        ns++;
        int idx = -1; for (size_t i = 0; i < P.size(); i++) if (P[i].src == (int)src && P[i].dst == me && P[i].tag == (int)tag && P[i].seq == seq) idx = (int)i;
        if (idx < 0) vsim_fail("c17.phantom", "host %d received a message nobody sent in phase %u (src %u tag %u seq %u)", me, phase, src, tag, seq);
        if (seen[phase][idx]++) vsim_fail("c17.duplicate", "host %d received message (src %u tag %u seq %u) twice", me, src, tag, seq);
        if (size != P[idx].size || (int)kind != P[idx].kind) vsim_fail("c17.payload", "header of message (src %u tag %u seq %u) corrupted", src, tag, seq);
        check_body(rb, P[idx], me);
        got[phase]++;
      }
    }
  };
  for (int ph = 0; ph < nphases; ph++) {
    auto& P = plan[ph];
    // senders: nsenders threads; a stream (src,dst,tag) belongs to one thread so its order is well defined
    galois::on_each([&](unsigned tid, unsigned) {
      for (auto& m : P) {
        if (m.src != me || m.thread != (int)tid) continue;
        grt::SendBuffer b; build(b, m);
        net.sendTagged(m.dst, m.tag, b);
        if ((m.salt & 3) == 0) vsim_yield();
        if ((m.salt & 15) == 1 && tid == 0) drain();   // receive while sending
      }
      if (tid == 0) net.flush();
    });
    net.flush();
    // no step-count deadline here: whether the messages arrive "in time" is decided by the engine's liveness rule
    // (progress within the budget once faults stop and the schedule is fair), never by a harness counter
    while (got[ph] < expect[ph]) { drain(); if (got[ph] < expect[ph]) vsim_yield(); }
    // phase separation: nobody leaves the fence before everybody entered it and all phase messages are in
    if (ph % 2 == 0) grt::getHostFence().wait(); else grt::getHostBarrier().wait();
    cur = ph + 1;
    drain();   // anything of phase ph showing up now is late; phase ph+1 may legitimately start arriving
    for (size_t i = 0; i < P.size(); i++) if (P[i].dst == me && seen[ph][i] != 1) vsim_fail("c17.lost", "host %d: message (src %d tag %d seq %u) was never delivered", me, P[i].src, P[i].tag, P[i].seq);
  }
  vsim_probe_add("messages_checked", 1);
  return 0;
}

int main() {
  nhosts = (int)vsim_param("hosts", 1, MAXH);
  int cores[1] = {(int)vsim_param("cores_per_host", 2, 4)};
  vsim_set_topology(1, cores, 1, 0);   // every host: one socket; the last pool thread becomes the communication thread
  nsenders = (int)vsim_param("senders", 1, cores[0] - 1);
  nphases = (int)vsim_param("phases", 1, 2);
  vsim_note("component", "network hosts=%d", nhosts);
  vsim_enable_fault(VF_MSG_DELAY, 0.05, 0.6);
  vsim_enable_fault(VF_IPROBE_MISS, 0.05, 0.5);
  vsim_enable_fault(VF_TEST_LAZY, 0.05, 0.5);
  vsim_enable_fault(VF_HOST_STALL, 0.0002, 0.004);
  vsim_enable_fault(VF_CLOCK_JUMP, 0.001, 0.05);
  vsim_enable_fault(VF_CAS_WEAK, 0.005, 0.1);
  vsim_set_budget(4000000);
  size_t total = 0, bytes = 0;
  static const uint32_t sizes[] = {0, 1, 3, 8, 100, 1399, 1400, 1401, 1396, 2800, 5000, 70000};
  for (int ph = 0; ph < nphases; ph++) {
    int count = (int)wl_range(0, tier() ? 60 : 40);   // (120 made thorough runs outlast the real-time watchdog on a loaded machine)
    std::map<std::array<int, 3>, uint32_t> seq; std::map<std::array<int, 3>, int> owner;
    for (int i = 0; i < count; i++) {
      MsgPlan m; m.phase = ph; m.src = (int)wl_range(0, nhosts - 1); m.dst = (int)wl_range(0, nhosts - 1);
      if (m.dst == m.src) { if (nhosts == 1) break; m.dst = (m.src + 1) % nhosts; }
      m.tag = TAG0 + (int)wl_range(0, MAXTAG - 1);
      std::array<int, 3> key{m.src, m.dst, m.tag};
      if (!owner.count(key)) owner[key] = (int)wl_range(0, nsenders - 1);
      m.thread = owner[key]; m.seq = seq[key]++;
      m.kind = (int)wl_range(0, 5);
      m.size = wl_chance(70) ? sizes[wl_range(0, 11)] : (uint32_t)wl_range(0, 3000);
      if (wl_chance(2)) m.size = (uint32_t)wl_range(1 << 20, 3 << 20);   // several MB
      if ((m.kind == 2 || m.kind == 4) && m.size > 20000) m.size = 20000;   // per-element work (strings, bitset bits are atomic operations)
      m.salt = vsim_wl_rand();
      bytes += m.size; if (bytes > (40u << 20)) break;
      plan[ph].push_back(m); total++;
    }
    // per (src,tag) at the receiver the sequence must be unique per stream: streams are keyed by (src,dst,tag) at the sender
    // and by (src,tag) at the receiver, which coincide for a fixed receiver.
  }
  vsim_note("plan", "hosts=%d senders=%d phases=%d messages=%zu bytes=%zu", nhosts, nsenders, nphases, total, bytes);
  int bad = vsim_world(nhosts, hostmain);
  if (bad) vsim_fail("c17.host", "a host returned a non-zero status");
  vsim_probe_add("mpi_messages", 0);
  return 0;
}
