// C05 — barriers separate phases, never deadlock, are reusable and re-initialisable.
// Real code under simulation: all six Barrier_*.cpp implementations, getBarrier(n),
// ThreadPool.  Oracle: arrival stamps (phase separation), HB-checked plain stamps
// (arrival -> departure edge, C06 edge c), completion via engine deadlock detection.
#include "hcommon.h"
#include "galois/Galois.h"
#include "galois/substrate/Barrier.h"
#include "galois/substrate/ThreadPool.h"
#include "galois/runtime/Substrate.h"

namespace gsb = galois::substrate;
static const char* impl_names[] = {"Topo", "getBarrier", "Counting", "MCS", "Dissemination", "Pthread", "Simple"};
constexpr int MAXN = 32, MAXPH = 64;

static int entered[MAXN];              // observation cells: last phase thread j entered
static int* stamp[2];                  // tracked (HB-checked) plain data, by phase parity
static unsigned char work[MAXN][MAXPH][2];  // precomputed uneven work (yields before/after wait)

int main() {
  int cap = tier() ? 16 : 8;
  int maxT = (int)vsim_param("maxthreads", 1, cap);
  Machine m = draw_machine(maxT);
  int impl = (int)vsim_param("impl", 0, 6);
  int regions = (int)vsim_param("regions", 1, 5);
  int maxph = tier() ? 40 : 12;
  vsim_note("component", "barrier=%s", impl_names[impl]);
  vsim_enable_fault(VF_CAS_WEAK, 0.01, 0.2);
  vsim_enable_fault(VF_COND_SPURIOUS, 0.02, 0.3);
  vsim_enable_fault(VF_COND_MULTIWAKE, 0.05, 0.5);
  vsim_enable_fault(VF_LATE_START, 0.05, 0.5);
  vsim_set_budget(4000000);

  galois::SharedMemSys G;
  auto& tp = gsb::getThreadPool();
  int hw = (int)tp.getMaxThreads();
  stamp[0] = (int*)vsim_tracked_alloc(sizeof(int) * MAXN);
  stamp[1] = (int*)vsim_tracked_alloc(sizeof(int) * MAXN);

  std::unique_ptr<gsb::Barrier> own;
  gsb::Barrier* bar = nullptr;
  int base = 0;  // phases are numbered globally across regions so stale stamps are distinguishable
  std::string plan;
  for (int r = 0; r < regions; r++) {
    int n = (int)wl_range(1, hw);
    int k = wl_chance(40) ? (int)wl_range(1, 3) : (int)wl_range(1, maxph);   // few phases between re-initialisations matter (stale per-phase state)
    bool fast = wl_chance(20);
    // (re)initialise between regions: no thread is inside wait() here
    if (impl == 1) bar = &galois::runtime::getBarrier(n);
    else if (!own || wl_chance(25)) {
      switch (impl) {
      case 0: own = gsb::createTopoBarrier(n); break;
      case 2: own = gsb::createCountingBarrier(n); break;
      case 3: own = gsb::createMCSBarrier(n); break;
      case 4: own = gsb::createDisseminationBarrier(n); break;
      case 5: own = gsb::createPthreadBarrier(n); break;
      default: own = gsb::createSimpleBarrier(n); break;
      }
      bar = own.get();
    } else { bar->reinit(n); }
    for (int t = 0; t < n; t++) for (int p = 0; p < k; p++) { work[t][p][0] = (unsigned char)(wl_chance(30) ? wl_range(1, 6) : 0); work[t][p][1] = (unsigned char)(wl_chance(30) ? wl_range(1, 6) : 0); }
    char b[64]; snprintf(b, sizeof b, "%s(n=%d,k=%d%s)", r ? " " : "", n, k, fast ? ",fast" : ""); plan += b;
    if (fast) tp.burnPower(n); else tp.beKind();
    int finished = 0;
    tp.run(n, [&]() {
      int tid = (int)gsb::ThreadPool::getTID();
      for (int p = 1; p <= k; p++) {
        int gp = base + p;
        for (int y = 0; y < work[tid][p - 1][0]; y++) vsim_yield();
        stamp[gp & 1][tid] = gp;          // plain write before arrival
        obs_store(&entered[tid], gp);     // arrival event
        bar->wait();
        // phase separation: nobody leaves wait #gp before everybody entered wait #gp
        for (int j = 0; j < n; j++) {
          int e = obs_load(&entered[j]);
          if (e < gp) vsim_fail("c05.phase-separation", "%s barrier n=%d: thread %d returned from wait #%d (global phase %d) while thread %d had only entered phase %d", impl_names[impl], n, tid, p, gp, j, e);
        }
        // arrival -> departure is a happens-before edge (checked by the engine on the tracked reads)
        for (int j = 0; j < n; j++) {
          int s = stamp[gp & 1][j];
          if (s != gp) vsim_fail("c05.stamp", "%s barrier n=%d: thread %d after wait #%d reads stamp[%d]=%d, expected %d", impl_names[impl], n, tid, p, j, s, gp);
        }
        for (int y = 0; y < work[tid][p - 1][1]; y++) vsim_yield();
      }
      obs_add(&finished, 1);
    });
    if (obs_load(&finished) != n) vsim_fail("c05.completion", "region %d: %d of %d threads completed", r, finished, n);
    base += k + 2;
    vsim_probe(fast ? "region_fastmode" : "region_sleepmode");
  }
  tp.beKind();
  vsim_note("plan", "%s", plan.c_str());
  return 0;
}
