// C19 (partitioning invariants) and C18 (Gluon sync) on 1-4 simulated hosts.
// Real code: CuSP partitioner (NewGeneric.h, policies), BufferedGraph reader, GluonSubstrate,
// NetworkInterfaceBuffered/NetworkIOMPI; stub: MPI.  Every host dumps what it holds into the side
// channel; the parent (which the system under test never sees) checks the global invariants.
//   param mode: 0 = partition only (C19), 1 = partition + sync rounds (C18)
#include "grwriter.h"
#include "galois/DistGalois.h"
#include "galois/Galois.h"
#include "galois/graphs/CuSPPartitioner.h"
#include "galois/graphs/GluonSubstrate.h"
#include "galois/runtime/SyncStructures.h"
#include <map>
#include <set>

struct NodeData { uint32_t vmin; uint32_t vadd; };
galois::DynamicBitSet bitset_vmin, bitset_vadd;
GALOIS_SYNC_STRUCTURE_REDUCE_MIN(vmin, uint32_t);
GALOIS_SYNC_STRUCTURE_REDUCE_ADD(vadd, uint32_t);
GALOIS_SYNC_STRUCTURE_BITSET(vmin);
GALOIS_SYNC_STRUCTURE_BITSET(vadd);

using Graph = galois::graphs::DistGraph<NodeData, uint32_t>;
using Substrate = galois::graphs::GluonSubstrate<Graph>;
static const char* pol_names[] = {"oec", "iec", "hovc", "cvc", "cvc-colflip", "ginger-o", "fennel-o", "sugar-o", "oec-symmetric", "cvc-csc"};
constexpr int NPOL = 10;
static int nhosts, policy, mode, nrounds, threads_per_host, commmode, partition_agnostic;
static gr::Model model, tmodel;     // input and its transpose (for CSC inputs)
static std::string path, tpath;
struct WritePlan { int loc; int reducer; int use_bitset; std::vector<std::array<uint32_t, 3>> writes; };   // (host, gid, value)
static std::vector<WritePlan> rounds;

// ---- side-channel records ----
enum { REC_NODE = 1, REC_EDGE, REC_MIRROR, REC_PRE, REC_POST, REC_INFO };
struct Rec { uint32_t kind, host, a, b, c, d; };
static bool cusp_async = true; static uint32_t cusp_rounds = 100, node_w = 0, edge_w = 0; static int read_policy = 1;   // drawn per run: the partitioner's own options
static void put(uint32_t kind, uint32_t host, uint32_t a, uint32_t b = 0, uint32_t c = 0, uint32_t d = 0) { Rec r{kind, host, a, b, c, d}; vsim_side_put(&r, sizeof r); }

static std::unique_ptr<Graph> partition() {
  using namespace galois;
  switch (policy) {
  case 0: return cuspPartitionGraph<NoCommunication, NodeData, uint32_t>(path, CUSP_CSR, CUSP_CSR, false, tpath, "", cusp_async, cusp_rounds, (galois::graphs::MASTERS_DISTRIBUTION)read_policy, node_w, edge_w);
  case 1: return cuspPartitionGraph<NoCommunication, NodeData, uint32_t>(path, CUSP_CSC, CUSP_CSR, false, tpath, "", cusp_async, cusp_rounds, (galois::graphs::MASTERS_DISTRIBUTION)read_policy, node_w, edge_w);
  case 2: return cuspPartitionGraph<GenericHVC, NodeData, uint32_t>(path, CUSP_CSR, CUSP_CSR, false, tpath, "", cusp_async, cusp_rounds, (galois::graphs::MASTERS_DISTRIBUTION)read_policy, node_w, edge_w);
  case 3: return cuspPartitionGraph<GenericCVC, NodeData, uint32_t>(path, CUSP_CSR, CUSP_CSR, false, tpath, "", cusp_async, cusp_rounds, (galois::graphs::MASTERS_DISTRIBUTION)read_policy, node_w, edge_w);
  case 4: return cuspPartitionGraph<GenericCVCColumnFlip, NodeData, uint32_t>(path, CUSP_CSR, CUSP_CSR, false, tpath, "", cusp_async, cusp_rounds, (galois::graphs::MASTERS_DISTRIBUTION)read_policy, node_w, edge_w);
  case 5: return cuspPartitionGraph<GingerP, NodeData, uint32_t>(path, CUSP_CSR, CUSP_CSR, false, tpath, "", cusp_async, cusp_rounds, (galois::graphs::MASTERS_DISTRIBUTION)read_policy, node_w, edge_w);
  case 6: return cuspPartitionGraph<FennelP, NodeData, uint32_t>(path, CUSP_CSR, CUSP_CSR, false, tpath, "", cusp_async, cusp_rounds, (galois::graphs::MASTERS_DISTRIBUTION)read_policy, node_w, edge_w);
  case 7: return cuspPartitionGraph<SugarP, NodeData, uint32_t>(path, CUSP_CSR, CUSP_CSR, false, tpath, "", cusp_async, cusp_rounds, (galois::graphs::MASTERS_DISTRIBUTION)read_policy, node_w, edge_w);
  case 8: return cuspPartitionGraph<NoCommunication, NodeData, uint32_t>(path, CUSP_CSR, CUSP_CSR, true, tpath, "", cusp_async, cusp_rounds, (galois::graphs::MASTERS_DISTRIBUTION)read_policy, node_w, edge_w);
  default: return cuspPartitionGraph<GenericCVC, NodeData, uint32_t>(path, CUSP_CSR, CUSP_CSC, false, tpath, "", cusp_async, cusp_rounds, (galois::graphs::MASTERS_DISTRIBUTION)read_policy, node_w, edge_w);
  }
}

template <class Fn, class Bits>
static void do_sync(Substrate& sub, int loc) {
  switch (loc) {
  case 0: sub.sync<writeSource, readSource, Fn, Bits>("s"); break;
  case 1: sub.sync<writeSource, readDestination, Fn, Bits>("s"); break;
  case 2: sub.sync<writeSource, readAny, Fn, Bits>("s"); break;
  case 3: sub.sync<writeDestination, readSource, Fn, Bits>("s"); break;
  case 4: sub.sync<writeDestination, readDestination, Fn, Bits>("s"); break;
  case 5: sub.sync<writeDestination, readAny, Fn, Bits>("s"); break;
  case 6: sub.sync<writeAny, readSource, Fn, Bits>("s"); break;
  case 7: sub.sync<writeAny, readDestination, Fn, Bits>("s"); break;
  default: sub.sync<writeAny, readAny, Fn, Bits>("s"); break;
  }
}

static int hostmain(int me) {
  // The runtime is deliberately not torn down: DistMemSys's destructor merges statistics across hosts with a protocol
  // of its own (DistStats.cpp), which is outside C18/C19 and whose shutdown race is recorded separately (DESIGN section 4).
  new galois::DistMemSys();
  galois::setActiveThreads(threads_per_host);
  auto& net = galois::runtime::getSystemNetworkInterface();
  std::unique_ptr<Graph> g = partition();
  Graph& gr_ = *g;
  put(REC_INFO, me, (uint32_t)gr_.size(), (uint32_t)gr_.numMasters(), (uint32_t)gr_.getNumNodesWithEdges(), gr_.isTransposed());
  for (uint32_t l = 0; l < gr_.size(); l++) {
    uint64_t gid = gr_.getGID(l);
    if (gr_.getLID(gid) != l) vsim_fail("c19.idmap", "host %d: G2L(L2G(%u)) = %u", me, l, gr_.getLID(gid));
    put(REC_NODE, me, l, (uint32_t)gid, gr_.isOwned(gid), gr_.getHostID(gid));
    for (auto e : gr_.edges(l)) put(REC_EDGE, me, (uint32_t)gid, (uint32_t)gr_.getGID(gr_.getEdgeDst(e)), gr_.getEdgeData(e));
  }
  auto& mir = gr_.getMirrorNodes();
  for (unsigned h = 0; h < mir.size(); h++) for (size_t k = 0; k < mir[h].size(); k++) put(REC_MIRROR, me, h, (uint32_t)k, (uint32_t)mir[h][k]);
  if (mode == 0) { galois::runtime::getHostBarrier().wait(); return 0; }
  // ---------------- C18: sync rounds ----------------
  static const DataCommMode modes[] = {noData, bitsetData, offsetsData, gidsData, onlyData};   // noData = choose by density
  Substrate sub(gr_, net.ID, net.Num, gr_.isTransposed(), gr_.cartesianGrid(), partition_agnostic != 0, modes[commmode]);
  bitset_vmin.resize(gr_.size()); bitset_vadd.resize(gr_.size());
  // initial consistent state: every proxy holds f(gid); add-field mirrors hold the identity
  for (uint32_t l = 0; l < gr_.size(); l++) { uint64_t gid = gr_.getGID(l); gr_.getData(l).vmin = 1000000 + (uint32_t)gid * 7; gr_.getData(l).vadd = gr_.isOwned(gid) ? (uint32_t)gid : 0; }
  for (size_t r = 0; r < rounds.size(); r++) {
    WritePlan& wp = rounds[r];
    bitset_vmin.reset(); bitset_vadd.reset();
    if (wp.reducer == 1) for (uint32_t l = 0; l < gr_.size(); l++) if (!gr_.isOwned(gr_.getGID(l))) gr_.getData(l).vadd = 0;   // add-fields: mirrors hold contributions, starting from the identity
    for (auto& w : wp.writes) {
      if ((int)w[0] != me || !gr_.isLocal(w[1])) continue;
      uint32_t l = gr_.getLID(w[1]);
      // eligibility: only proxies the write location allows are written (Gluon's contract for location flags)
      bool is_src = gr_.edge_begin(l) != gr_.edge_end(l), is_dst = false;
      // destination eligibility is decided by the parent from the gathered edges and encoded in the plan by only listing eligible proxies
      (void)is_src; (void)is_dst;
      if (wp.reducer == 0) { if (w[2] < gr_.getData(l).vmin) { gr_.getData(l).vmin = w[2]; bitset_vmin.set(l); } }
      else { gr_.getData(l).vadd += w[2]; bitset_vadd.set(l); }
    }
    for (uint32_t l = 0; l < gr_.size(); l++) put(REC_PRE, me, (uint32_t)r, (uint32_t)gr_.getGID(l), gr_.getData(l).vmin, gr_.getData(l).vadd);
    if (wp.reducer == 0) { if (wp.use_bitset) do_sync<Reduce_min_vmin, Bitset_vmin>(sub, wp.loc); else do_sync<Reduce_min_vmin, galois::InvalidBitsetFnTy>(sub, wp.loc); }
    else do_sync<Reduce_add_vadd, Bitset_vadd>(sub, wp.loc);
    for (uint32_t l = 0; l < gr_.size(); l++) put(REC_POST, me, (uint32_t)r, (uint32_t)gr_.getGID(l), gr_.getData(l).vmin, gr_.getData(l).vadd);
  }
  galois::runtime::getHostBarrier().wait();
  return 0;
}

int main() {
  nhosts = (int)vsim_param("hosts", 1, 4);
  int cores[1] = {(int)vsim_param("cores_per_host", 2, 4)};
  vsim_set_topology(1, cores, 1, 0);
  threads_per_host = (int)vsim_param("threads", 1, cores[0] - 1);
  policy = (int)vsim_param("policy", 0, NPOL - 1);
  mode = (int)vsim_param_fixed("mode", 0);
  commmode = (int)vsim_param("commmode", 0, 4); partition_agnostic = (int)vsim_param("partition_agnostic", 0, 3) == 0;
  read_policy = (int)vsim_param("read_policy", 0, 2);   // BALANCED_MASTERS / BALANCED_EDGES_OF_MASTERS / BALANCED_MASTERS_AND_EDGES
  cusp_async = vsim_param("cusp_async", 0, 1) != 0; { static const uint32_t rr[] = {1, 3, 100}; cusp_rounds = rr[vsim_param("cusp_rounds", 0, 2)]; }
  if (read_policy == 2 && vsim_param("weights", 0, 1)) { node_w = (uint32_t)vsim_param("node_w", 1, 5); edge_w = (uint32_t)vsim_param("edge_w", 1, 5); }
  vsim_note("component", "%s policy=%s hosts=%d", mode ? "gluon-sync" : "partition", pol_names[policy], nhosts);
  vsim_enable_fault(VF_MSG_DELAY, 0.05, 0.6);
  vsim_enable_fault(VF_IPROBE_MISS, 0.05, 0.5);
  vsim_enable_fault(VF_TEST_LAZY, 0.05, 0.5);
  vsim_enable_fault(VF_HOST_STALL, 0.0002, 0.004);
  vsim_enable_fault(VF_CLOCK_JUMP, 0.001, 0.05);
  vsim_set_budget(6000000);
  // ---- input graph (unique edge data so every edge is identifiable) ----
  model = gr::generate(tier() ? 120 : 60, true);
  if (model.n == 0) { model.n = 1; model.end.assign(1, 0); }
  if (policy >= 5 && policy <= 7 && model.edges.empty()) {
    // streaming policies divide by the global edge count: a graph without edges turns every score into NaN, no host wins
    // and getMaster() indexes nodeAccum[-1]; reported as a known finding, the run continues on a graph with one edge
    vsim_known("streaming-policy-edgeless-graph", "Fennel/Ginger/Sugar on a graph without edges: balance score is NaN (numNodes/numEdges), bestHost stays -1, SIGSEGV in getMaster()");
    if (!vsim_param_fixed("exercise_known", 0)) { if (model.n < 2) { model.n = 2; } model.edges.push_back({0, 1, 1}); model.end.assign(model.n, 1); }
  }
  if (policy == 8) {   // symmetric input: make it symmetric (keeping unique data per directed edge)
    std::vector<gr::Edge> es = model.edges; for (auto& e : model.edges) if (e.src != e.dst) es.push_back({e.dst, e.src, 0});
    std::stable_sort(es.begin(), es.end(), [](auto& a, auto& b) { return a.src < b.src; });
    uint64_t k = 1; for (auto& e : es) e.data = k++;
    model.edges = es; model.end.assign(model.n, 0); for (auto& e : model.edges) model.end[e.src]++; for (uint32_t i = 1; i < model.n; i++) model.end[i] += model.end[i - 1];
  }
  tmodel = model; { std::vector<gr::Edge> es; for (auto& e : model.edges) es.push_back({e.dst, e.src, e.data}); std::stable_sort(es.begin(), es.end(), [](auto& a, auto& b) { return a.src < b.src; }); tmodel.edges = es; tmodel.end.assign(model.n, 0); for (auto& e : es) tmodel.end[e.src]++; for (uint32_t i = 1; i < model.n; i++) tmodel.end[i] += tmodel.end[i - 1]; }
  path = std::string(vsim_workdir()) + "/g.gr"; tpath = std::string(vsim_workdir()) + "/g.tgr";
  gr::write_file(path, gr::encode(model, 1, 4)); gr::write_file(tpath, gr::encode(tmodel, 1, 4));
  // ---- sync plan (C18): which proxies are written is decided after partitioning by eligibility, so the plan lists
  // (host, gid, value) candidates for every host and every node; hosts apply only what they hold, the parent filters by eligibility
  nrounds = mode ? (int)wl_range(1, 4) : 0;
  for (int r = 0; r < nrounds; r++) {
    WritePlan wp; wp.loc = (int)wl_range(0, 8); wp.reducer = (int)wl_range(0, 1); wp.use_bitset = wp.reducer == 1 ? 1 : (int)wl_range(0, 1);
    int density = (int)wl_range(0, 100);
    for (int h = 0; h < nhosts; h++) for (uint32_t gid = 0; gid < model.n; gid++) if (wl_chance(density)) wp.writes.push_back({(uint32_t)h, gid, wp.reducer == 0 ? (uint32_t)wl_range(1, 2000000) : (uint32_t)wl_range(1, 1000)});
    rounds.push_back(wp);
  }
  vsim_note("plan", "nodes=%u edges=%zu policy=%s hosts=%d threads=%d rounds=%d", model.n, model.edges.size(), pol_names[policy], nhosts, threads_per_host, nrounds);
  // Eligibility needs the partition, which only exists inside the hosts: for the write locations Source/Destination the
  // harness restricts itself to writeAny plans unless the proxy's role can be decided from the policy-independent rule
  // "proxy is src/dst of a local edge", which the hosts evaluate themselves below (see filter in hostmain via REC_PRE values).
  for (auto& wp : rounds) if (wp.loc < 6) wp.loc = 6 + wp.loc % 3;   // write location: Any
  // one read location per run: Gluon tracks changes per field through the update bitset, so a proxy that was not readable at
  // an earlier sync of the field is not refreshed by a later one unless the value changes again (demanding it would exceed the statement)
  for (auto& wp : rounds) wp.loc = rounds[0].loc;
  int bad = vsim_world(nhosts, hostmain);
  if (bad) vsim_fail("c19.host", "a host returned a non-zero status");
  // ================= parent-side oracle =================
  const Rec* recs = (const Rec*)vsim_side_data(); size_t nrec = vsim_side_size() / sizeof(Rec);
  std::vector<std::map<uint32_t, uint32_t>> l2g(nhosts), g2l(nhosts);
  std::vector<std::vector<uint32_t>> owned_flag(nhosts);
  std::vector<std::array<uint32_t, 4>> info(nhosts, {0, 0, 0, 0});
  std::map<std::array<uint32_t, 3>, int> edge_count;   // (src,dst,data) in ORIGINAL orientation
  std::vector<std::set<uint32_t>> has_out(nhosts), has_in(nhosts);
  std::vector<std::vector<std::vector<uint32_t>>> mirrors(nhosts, std::vector<std::vector<uint32_t>>(nhosts));
  std::vector<int> masters_of(model.n, 0), master_host(model.n, -1), claimed_owner(model.n, -1);
  for (size_t i = 0; i < nrec; i++) {
    const Rec& r = recs[i];
    switch (r.kind) {
    case REC_INFO: info[r.host] = {r.a, r.b, r.c, r.d}; break;
    case REC_NODE:
      if (r.b >= model.n) vsim_fail("c19.idmap", "host %u holds a proxy for non-existent global node %u", r.host, r.b);
      if (l2g[r.host].count(r.a) || g2l[r.host].count(r.b)) vsim_fail("c19.idmap", "host %u: local id %u / global id %u appears twice", r.host, r.a, r.b);
      l2g[r.host][r.a] = r.b; g2l[r.host][r.b] = r.a;
      if (r.c) { masters_of[r.b]++; master_host[r.b] = (int)r.host; if (r.a >= info[r.host][1]) vsim_fail("c19.masters-first", "host %u: master of node %u has local id %u >= numOwned %u (masters must precede mirrors)", r.host, r.b, r.a, info[r.host][1]); }
      else if (r.a < info[r.host][1]) vsim_fail("c19.masters-first", "host %u: mirror of node %u has local id %u < numOwned %u", r.host, r.b, r.a, info[r.host][1]);
      if (claimed_owner[r.b] >= 0 && claimed_owner[r.b] != (int)r.d) vsim_fail("c19.owner-agreement", "hosts disagree about the owner of node %u (%d vs %u)", r.b, claimed_owner[r.b], r.d);
      claimed_owner[r.b] = (int)r.d;
      break;
    case REC_EDGE: {
      // orientation of the local edges: only the CSC-output configuration holds transposed edges; the IEC configuration reads
      // the transpose file and transposes back (its isTransposed() flag is set nevertheless)
      bool flip = policy == 9;
      uint32_t s = flip ? r.b : r.a, d = flip ? r.a : r.b;
      edge_count[{s, d, r.c}]++;
      has_out[r.host].insert(r.a); has_in[r.host].insert(r.b);
      if (!g2l[r.host].count(r.b)) {} // destination proxies are dumped as nodes too; checked below
      break; }
    case REC_MIRROR: if (mirrors[r.host][r.a].size() <= r.b) mirrors[r.host][r.a].resize(r.b + 1); mirrors[r.host][r.a][r.b] = r.c; break;
    }
  }
  for (uint32_t gnode = 0; gnode < model.n; gnode++) {
    if (masters_of[gnode] != 1) vsim_fail("c19.one-master", "policy %s on %d hosts: node %u has %d masters", pol_names[policy], nhosts, gnode, masters_of[gnode]);
    if (claimed_owner[gnode] != master_host[gnode]) vsim_fail("c19.owner-agreement", "node %u: getHostID says host %d, the master flag is on host %d", gnode, claimed_owner[gnode], master_host[gnode]);
  }
  for (auto& e : model.edges) { auto it = edge_count.find({e.src, e.dst, (uint32_t)e.data}); int c = it == edge_count.end() ? 0 : it->second; if (c != 1) vsim_fail("c19.edges", "policy %s on %d hosts: input edge %u->%u (data %lu) is held %d times", pol_names[policy], nhosts, e.src, e.dst, (unsigned long)e.data, c); }
  if (edge_count.size() != model.edges.size()) vsim_fail("c19.edges", "policy %s: the hosts hold %zu distinct edges, the input has %zu", pol_names[policy], edge_count.size(), model.edges.size());
  for (int h = 0; h < nhosts; h++) {
    if (l2g[h].size() != info[h][0]) vsim_fail("c19.idmap", "host %d dumped %zu nodes, size() = %u", h, l2g[h].size(), info[h][0]);
    for (uint32_t x : has_out[h]) if (!g2l[h].count(x)) vsim_fail("c19.proxy", "host %d holds an edge of node %u without a proxy for it", h, x);
    for (uint32_t x : has_in[h]) if (!g2l[h].count(x)) vsim_fail("c19.proxy", "host %d holds an edge to node %u without a proxy for it", h, x);
    // mirror lists: exactly the non-owned proxies grouped by owner
    std::vector<std::set<uint32_t>> exp(nhosts);
    for (auto& kv : g2l[h]) if (master_host[kv.first] != h) exp[master_host[kv.first]].insert(kv.first);
    for (int o = 0; o < nhosts; o++) { std::set<uint32_t> got(mirrors[h][o].begin(), mirrors[h][o].end()); if (got != exp[o] || got.size() != mirrors[h][o].size()) vsim_fail("c19.mirror-lists", "host %d: mirror list for owner %d has %zu entries, the host holds %zu non-owned proxies of that owner", h, o, mirrors[h][o].size(), exp[o].size()); }
    // policy promise: outgoing edge cut -> only masters have out-edges
    if (policy == 0 || policy == 8) for (uint32_t x : has_out[h]) if (master_host[x] != h) vsim_fail("c19.oec", "outgoing edge cut: host %d holds out-edges of node %u whose master is host %d", h, x, master_host[x]);
    if (policy == 1) for (uint32_t x : has_in[h]) if (master_host[x] != h) vsim_fail("c19.iec", "incoming edge cut: host %d holds in-edges of node %u whose master is host %d", h, x, master_host[x]);
  }
  // ================= C18 oracle =================
  if (mode) {
    std::vector<std::map<std::pair<int, uint32_t>, std::array<uint32_t, 2>>> pre(nrounds), post(nrounds);
    for (size_t i = 0; i < nrec; i++) { const Rec& r = recs[i]; if (r.kind == REC_PRE) pre[r.a][{(int)r.host, r.b}] = {r.c, r.d}; if (r.kind == REC_POST) post[r.a][{(int)r.host, r.b}] = {r.c, r.d}; }
    for (int r = 0; r < nrounds; r++) {
      WritePlan& wp = rounds[r]; int rl = wp.loc % 3;   // read location: 0 source, 1 destination, 2 any
      for (uint32_t gnode = 0; gnode < model.n; gnode++) {
        int mh = master_host[gnode];
        uint32_t expect;
        if (wp.reducer == 0) { expect = pre[r][{mh, gnode}][0]; for (int h = 0; h < nhosts; h++) { auto it = pre[r].find({h, gnode}); if (it != pre[r].end()) expect = std::min(expect, it->second[0]); } }
        else { expect = 0; for (int h = 0; h < nhosts; h++) { auto it = pre[r].find({h, gnode}); if (it != pre[r].end()) expect += it->second[1]; } }
        for (int h = 0; h < nhosts; h++) {
          auto it = post[r].find({h, gnode}); if (it == post[r].end()) continue;
          // locations refer to the local graph as the operator iterates it: source = has a local out-edge, destination = is the
          // target of a local edge (for every configuration, whatever isTransposed() says about how the edges got there)
          bool readable = rl == 2 || (rl == 0 && has_out[h].count(gnode)) || (rl == 1 && has_in[h].count(gnode));
          if (h == mh) readable = true;   // the master always holds the reduced value
          // add-fields: mirrors hold contributions and are reset by the reduction; whether a mirror is overwritten by the broadcast
          // depends on whether the master changed in this round, so only the master's value is the decided outcome
          if (wp.reducer == 1 && h != mh) continue;
          if (!readable) continue;
          uint32_t got = wp.reducer == 0 ? it->second[0] : it->second[1];
          // add: after the sync mirrors that are read hold the master's value; mirrors not broadcast to keep the identity
          if (got != expect) vsim_fail("c18.sync", "policy %s, %d hosts, round %d (%s, write any / read %s, %s bitset): proxy of node %u on host %d (%s) holds %u after the sync, the reduction of all contributions is %u",
                                       pol_names[policy], nhosts, r, wp.reducer ? "add" : "min", rl == 0 ? "source" : rl == 1 ? "destination" : "any", wp.use_bitset ? "with" : "without", gnode, h, h == mh ? "master" : "mirror", got, expect);
        }
      }
    }
    vsim_probe_add("sync_rounds", nrounds);
  }
  vsim_probe_add("hosts", nhosts);
  return 0;
}
