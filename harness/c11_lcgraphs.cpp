// C11 — static (LC_*) graphs present exactly the input graph, in every layout and view.
// Inputs are written by the harness's own writer; graphs are built by the parallel builders under
// the simulator (per-thread divideByNode slices, atomic slot claiming in transpose / in-edge construction).
#include "grwriter.h"
#include "galois/Galois.h"
#include "galois/graphs/Graph.h"
#include "galois/graphs/LC_CSR_CSC_Graph.h"
#include "galois/graphs/LC_InlineEdge_Graph.h"
#include "galois/graphs/LC_InOut_Graph.h"
#include "galois/graphs/LC_Linear_Graph.h"
#include "galois/graphs/LC_Morph_Graph.h"
#include <map>
#include <set>

using namespace galois::graphs;
using MS = std::multiset<std::pair<uint32_t, uint64_t>>;
static const galois::MethodFlag U = galois::MethodFlag::UNPROTECTED;
static int nthr;

static std::vector<std::vector<std::pair<uint32_t, uint64_t>>> by_src(const gr::Model& m) {
  std::vector<std::vector<std::pair<uint32_t, uint64_t>>> r(m.n);
  for (auto& e : m.edges) r[e.src].push_back({e.dst, e.data});
  return r;
}
static std::vector<MS> by_dst(const gr::Model& m) {
  std::vector<MS> r(m.n);
  for (auto& e : m.edges) r[e.dst].insert({e.src, e.data});
  return r;
}

// exact comparison for graphs whose nodes iterate in file order
template <class G, bool HASDATA = true>
static void check_exact(G& g, const gr::Model& m, const char* name) {
  if (g.size() != m.n) vsim_fail("c11.nodes", "%s: %zu nodes, input has %u", name, (size_t)g.size(), m.n);
  uint32_t idx = 0;
  for (auto n : g) g.getData(n, U) = (int)idx++;
  if (idx != m.n) vsim_fail("c11.nodes", "%s: iteration yields %u nodes, input has %u", name, idx, m.n);
  auto model = by_src(m);
  idx = 0;
  for (auto n : g) {
    size_t k = 0;
    for (auto e : g.edges(n, U)) {
      uint32_t d = (uint32_t)g.getData(g.getEdgeDst(e), U);
      uint64_t v = 0; if constexpr (HASDATA) v = g.getEdgeData(e);
      if (k >= model[idx].size()) vsim_fail("c11.edges", "%s (%d threads): node %u has more than its %zu edges", name, nthr, idx, model[idx].size());
      if (d != model[idx][k].first || (HASDATA && v != model[idx][k].second))
        vsim_fail("c11.edges", "%s (%d threads): edge #%zu of node %u is (->%u, data %lu), input has (->%u, data %lu)", name, nthr, k, idx, d, (unsigned long)v, model[idx][k].first, (unsigned long)model[idx][k].second);
      k++;
    }
    if (k != model[idx].size()) vsim_fail("c11.edges", "%s (%d threads): node %u has %zu edges, input has %zu", name, nthr, idx, k, model[idx].size());
    idx++;
  }
}
// order-free comparison through unique edge ids stored as edge data (layouts whose node order is not the file's)
template <class G>
static void check_by_edge_ids(G& g, const gr::Model& m, const char* name) {
  std::vector<int> seen(m.edges.size() + 1, 0);
  int next_tmp = -1;
  for (auto n : g) g.getData(n, U) = next_tmp--;   // unknown id yet
  size_t nodes = 0;
  // first pass: nodes with edges learn their id from their edges' ids
  for (auto n : g) {
    nodes++;
    for (auto e : g.edges(n, U)) {
      uint64_t id = g.getEdgeData(e);
      if (id == 0 || id > m.edges.size()) vsim_fail("c11.edges", "%s: edge with data %lu is not an input edge", name, (unsigned long)id);
      seen[id]++;
      int src = (int)m.edges[id - 1].src;
      int cur = g.getData(n, U);
      if (cur < 0) g.getData(n, U) = src; else if (cur != src) vsim_fail("c11.edges", "%s: one node holds edges of input nodes %d and %d", name, cur, src);
    }
  }
  if (nodes != m.n) vsim_fail("c11.nodes", "%s: iteration yields %zu nodes, input has %u", name, nodes, m.n);
  for (size_t i = 1; i <= m.edges.size(); i++) if (seen[i] != 1) vsim_fail("c11.edges", "%s (%d threads): input edge #%zu (%u->%u) appears %d times", name, nthr, i, m.edges[i - 1].src, m.edges[i - 1].dst, seen[i]);
  // second pass: destinations (only checkable when the destination has out-edges itself)
  std::set<int> ids;
  for (auto n : g) {
    int me = g.getData(n, U); if (me >= 0 && !ids.insert(me).second) vsim_fail("c11.nodes", "%s: two nodes present input node %d", name, me);
    for (auto e : g.edges(n, U)) { int d = g.getData(g.getEdgeDst(e), U); if (d >= 0 && d != (int)m.edges[g.getEdgeData(e) - 1].dst) vsim_fail("c11.edges", "%s: edge #%lu points to input node %d, should be %u", name, (unsigned long)g.getEdgeData(e), d, m.edges[g.getEdgeData(e) - 1].dst); }
  }
}

template <class G>
static void check_local_ranges(G& g, const gr::Model& m, const char* name) {
  std::vector<std::pair<long, long>> r(nthr, {-1, -1});
  galois::on_each([&](unsigned tid, unsigned) { r[tid] = {(long)*g.local_begin(), (long)*g.local_end()}; });
  long expect = 0;
  for (int t = 0; t < nthr; t++) {
    if (r[t].first != expect || r[t].second < r[t].first) vsim_fail("c11.local-ranges", "%s: local range of thread %d is [%ld,%ld), expected to start at %ld (ranges must partition [0,%u))", name, t, r[t].first, r[t].second, expect, m.n);
    expect = r[t].second;
  }
  if (expect != (long)m.n) vsim_fail("c11.local-ranges", "%s: local ranges end at %ld, graph has %u nodes", name, expect, m.n);
}

template <class G>
static void csr_views(G& g, const gr::Model& m, const char* name) {
  auto model = by_src(m);
  // lookups
  for (int q = 0; q < 40 && m.n; q++) {
    uint32_t a = (uint32_t)wl_range(0, m.n - 1), b = (uint32_t)wl_range(0, m.n - 1);
    bool exists = false; for (auto& e : model[a]) if (e.first == b) exists = true;
    auto it = g.findEdge(a, b);
    bool found = it != g.edge_end(a, U);
    if (found != exists || (found && g.getEdgeDst(it) != b)) vsim_fail("c11.findEdge", "%s: findEdge(%u,%u) says %d, linear scan of the input says %d", name, a, b, (int)found, (int)exists);
  }
  // sort by destination: permutation + sorted + binary-search lookup
  g.sortAllEdgesByDst();
  for (uint32_t i = 0; i < m.n; i++) {
    MS got, exp(model[i].begin(), model[i].end()); uint32_t prev = 0; bool first = true;
    for (auto e : g.edges(i, U)) { uint32_t d = g.getEdgeDst(e); got.insert({d, g.getEdgeData(e)}); if (!first && d < prev) vsim_fail("c11.sort", "%s: edges of node %u not sorted by destination after sortAllEdgesByDst", name, i); prev = d; first = false; }
    if (got != exp) vsim_fail("c11.sort", "%s: sortAllEdgesByDst changed the edge multiset of node %u", name, i);
  }
  for (int q = 0; q < 40 && m.n; q++) {
    uint32_t a = (uint32_t)wl_range(0, m.n - 1), b = (uint32_t)wl_range(0, m.n - 1);
    bool exists = false; for (auto& e : model[a]) if (e.first == b) exists = true;
    auto it = g.findEdgeSortedByDst(a, b);
    bool found = it != g.edge_end(a, U);
    if (found != exists || (found && g.getEdgeDst(it) != b)) vsim_fail("c11.findEdge", "%s: findEdgeSortedByDst(%u,%u) says %d, input says %d", name, a, b, (int)found, (int)exists);
  }
  for (uint32_t i = 0; i < m.n && i < 50; i++) {
    g.sortEdgesByEdgeData(i, std::less<typename G::edge_data_type>());
    MS got, exp(model[i].begin(), model[i].end()); uint64_t prev = 0; bool first = true;
    for (auto e : g.edges(i, U)) { uint64_t v = g.getEdgeData(e); got.insert({g.getEdgeDst(e), v}); if (!first && v < prev) vsim_fail("c11.sort", "%s: edges of node %u not sorted by data", name, i); prev = v; first = false; }
    if (got != exp) vsim_fail("c11.sort", "%s: sortEdgesByEdgeData changed the edge multiset of node %u", name, i);
  }
  // in-place transpose: edges of node i are exactly the input edges into i
  g.transpose();
  auto in = by_dst(m);
  if (g.size() != m.n || g.sizeEdges() != m.edges.size()) vsim_fail("c11.transpose", "%s: transpose changed the node or edge count", name);
  for (uint32_t i = 0; i < m.n; i++) {
    MS got; for (auto e : g.edges(i, U)) got.insert({(uint32_t)g.getEdgeDst(e), g.getEdgeData(e)});
    if (got != in[i]) vsim_fail("c11.transpose", "%s (%d threads): after transpose node %u has %zu edges, the input has %zu edges into it (or different ones)", name, nthr, i, got.size(), in[i].size());
  }
}

int main() {
  int cap = tier() ? 16 : 8;
  int maxT = (int)vsim_param("maxthreads", 1, cap);
  Machine mc = draw_machine(maxT);
  int layout = (int)vsim_param("layout", 0, 8);
  static const char* ln[] = {"LC_CSR<uint32>", "LC_CSR<void>+numa", "LC_CSR_CSC", "LC_Linear", "LC_InlineEdge", "LC_Morph", "LC_CSR(arrays)", "LC_CSR<uint64>v2", "LC_InOut<LC_CSR>"};
  vsim_note("component", "layout=%s", ln[layout]);
  vsim_enable_fault(VF_COND_SPURIOUS, 0.05, 0.4);
  vsim_enable_fault(VF_PLAIN_PREEMPT, 0.02, 0.6);   // plain shared data of the library (behind locks, in shared helper state) becomes preemptible
  vsim_plain_preempt_window(1);   // operators here keep no shared non-atomic bookkeeping of their own
  vsim_enable_fault(VF_COND_MULTIWAKE, 0.05, 0.4);
  vsim_enable_fault(VF_HUGE_REFUSED, 0.2, 0.9);
  vsim_set_budget(8000000);
  galois::SharedMemSys G;
  int hw = (int)galois::substrate::getThreadPool().getMaxThreads();
  nthr = (int)wl_range(1, hw);
  galois::setActiveThreads(nthr); nthr = (int)galois::getActiveThreads();
  // every array the graph code maps from here on (topology, edge data, the temporaries of transpose / in-edge construction)
  // is under the happens-before check: two threads touching one slot without ordering is reported even when the
  // interleaving sampled by this seed happens to produce the right answer
  vsim_hb_watch_mmaps(1);
  gr::Model m = gr::generate(tier() ? 2000 : 120, true);
  int version = layout == 7 ? 2 : (int)wl_range(1, 2);
  bool linvoid = layout == 3 && wl_chance(50);   // node and edge records of different sizes share one array: padding between nodes matters
  size_t se = (layout == 1 || linvoid) ? 0 : layout == 7 ? 8 : 4;
  std::string path = std::string(vsim_workdir()) + "/g.gr";
  gr::write_file(path, gr::encode(m, version, se));
  vsim_note("plan", "nodes=%u edges=%zu version=%d sizeofEdge=%zu threads=%d", m.n, m.edges.size(), version, se, nthr);
  switch (layout) {
  case 0: { using Gr = LC_CSR_Graph<int, uint32_t>::with_no_lockable<true>::type; Gr g; readGraph(g, path); check_exact(g, m, ln[layout]); check_local_ranges(g, m, ln[layout]); csr_views(g, m, ln[layout]); break; }
  case 1: { using Gr = LC_CSR_Graph<int, void>::with_no_lockable<true>::type::with_numa_alloc<true>::type; Gr g; readGraph(g, path); check_exact<Gr, false>(g, m, ln[layout]); check_local_ranges(g, m, ln[layout]); break; }
  case 2: {
    using Gr = LC_CSR_CSC_Graph<int, uint32_t, false, true>; Gr g; bool byval = wl_chance(50); LC_CSR_CSC_Graph<int, uint32_t, true, true> gv;
    if (byval) { readGraph(gv, path); check_exact(gv, m, ln[layout]); gv.constructIncomingEdges(); auto inv = by_dst(m); for (uint32_t i = 0; i < m.n; i++) { MS got; for (auto e : gv.in_edges(i, U)) got.insert({(uint32_t)gv.getInEdgeDst(e), (uint64_t)gv.getInEdgeData(e)}); if (got != inv[i]) vsim_fail("c11.in-edges", "LC_CSR_CSC(by value) (%d threads): node %u has %zu in-edges, the input has %zu", nthr, i, got.size(), inv[i].size()); } break; }
    readGraph(g, path);
    check_exact(g, m, ln[layout]);
    g.constructIncomingEdges();
    auto in = by_dst(m);
    for (uint32_t i = 0; i < m.n; i++) {
      MS got; for (auto e : g.in_edges(i, U)) got.insert({(uint32_t)g.getInEdgeDst(e), (uint64_t)g.getInEdgeData(e)});
      if (got != in[i]) vsim_fail("c11.in-edges", "%s (%d threads): node %u has %zu in-edges, the input has %zu edges into it (or different ones)", ln[layout], nthr, i, got.size(), in[i].size());
    }
    check_exact(g, m, ln[layout]);   // out-edges unchanged
    break; }
  case 3: { if (linvoid) { using Gv = LC_Linear_Graph<int, void>; Gv g;   /* lockable nodes: 16-byte node records next to 8-byte edge records */ readGraph(g, path); check_exact<Gv, false>(g, m, "LC_Linear<void>"); break; }
    using Gr = LC_Linear_Graph<int, uint32_t>::with_no_lockable<true>::type; Gr g; readGraph(g, path); check_by_edge_ids(g, m, ln[layout]); check_exact(g, m, ln[layout]); break; }
  case 4: {
    using Gr = LC_InlineEdge_Graph<int, uint32_t>::with_no_lockable<true>::type; Gr g;
    FileGraph f; f.fromFileInterleaved<uint32_t>(path);
    g.allocateFrom(f);
    galois::on_each([&](unsigned tid, unsigned tot) { g.constructFrom(f, tid, tot); });   // readGraph() does not compile for this layout (4-argument constructFrom)
    check_by_edge_ids(g, m, ln[layout]); check_exact(g, m, ln[layout]);
    break; }
  case 5: { using Gr = LC_Morph_Graph<int, uint32_t>::with_no_lockable<true>::type; Gr g; readGraph(g, path); check_by_edge_ids(g, m, ln[layout]); break; }
  case 6: {
    auto model = by_src(m);
    using Gr = LC_CSR_Graph<int, uint32_t>::with_no_lockable<true>::type;
    // (the functor-taking constructor does not compile in this tree: outOfLineAllocateBlocked(n, false));
    // build through the public array API the applications use
    Gr g; g.allocateFrom(m.n, m.edges.size()); g.constructNodes();
    uint64_t e = 0;
    for (uint32_t n = 0; n < m.n; n++) { for (auto& ed : model[n]) { g.constructEdge(e, ed.first, (uint32_t)ed.second); e++; } g.fixEndEdge(n, e); }
    check_exact(g, m, ln[layout]); csr_views(g, m, ln[layout]);
    break; }
  case 8: {
    // in/out layout: out-edges from the file, in-edges from a second (transposed) file written by the harness,
    // or -- one-file form -- the graph's own edges (the caller asserts the input is symmetric)
    using Gr = LC_InOut_Graph<LC_CSR_Graph<int, uint32_t>::with_no_lockable<true>::type>; Gr g;
    bool two = wl_chance(70);
    gr::Model mt; mt.n = m.n;
    { std::vector<gr::Edge> es; for (auto& e : m.edges) es.push_back({e.dst, e.src, e.data});
      std::stable_sort(es.begin(), es.end(), [](const gr::Edge& a, const gr::Edge& b) { return a.src < b.src; });
      mt.edges = es; mt.end.assign(m.n, 0); for (auto& e : mt.edges) mt.end[e.src]++; for (uint32_t i = 1; i < m.n; i++) mt.end[i] += mt.end[i - 1]; }
    std::string tpath = std::string(vsim_workdir()) + "/gt.gr";
    if (two) { gr::write_file(tpath, gr::encode(mt, (int)wl_range(1, 2), se)); readGraph(g, path, tpath); } else readGraph(g, path);
    vsim_note("plan", "inout form=%s", two ? "two files" : "one file");
    check_exact(g, m, ln[layout]); check_local_ranges(g, m, ln[layout]);
    auto in = two ? by_dst(m) : std::vector<MS>();
    if (!two) { auto o = by_src(m); in.resize(m.n); for (uint32_t i = 0; i < m.n; i++) in[i] = MS(o[i].begin(), o[i].end()); }
    for (int pass = 0; pass < 2; pass++) {
      uint32_t i = 0;
      for (auto n : g) {
        MS got; uint32_t prev = 0; bool first = true;
        for (auto e : g.in_edges(n, U)) {
          uint32_t d = (uint32_t)g.getData(g.getInEdgeDst(e), U); got.insert({d, (uint64_t)g.getInEdgeData(e)});
          if (pass && !first && d < prev) vsim_fail("c11.sort", "%s: in-edges of node %u not sorted by source after sortAllInEdgesByDst", ln[layout], i);
          prev = d; first = false;
        }
        if (got != in[i]) vsim_fail("c11.in-edges", "%s (%d threads, %s, pass %d): node %u has %zu in-edges, the input has %zu edges into it (or different ones)", ln[layout], nthr, two ? "two files" : "one file", pass, i, got.size(), in[i].size());
        if ((size_t)std::distance(g.in_edge_begin(n, U), g.in_edge_end(n, U)) != in[i].size()) vsim_fail("c11.in-edges", "%s: in-degree of node %u is wrong", ln[layout], i);
        i++;
      }
      if (pass == 0) g.sortAllInEdgesByDst(U);
    }
    if (two) check_exact(g, m, ln[layout]);   // sorting the in-edges leaves the out-edges alone
    break; }
  default: { using Gr = LC_CSR_Graph<int, uint64_t>::with_no_lockable<true>::type; Gr g; readGraph(g, path); check_exact(g, m, ln[layout]); csr_views(g, m, ln[layout]); break; }
  }
  vsim_probe_add("edges_checked", m.edges.size());
  return 0;
}
