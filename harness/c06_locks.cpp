// C06 — locks exclude; promised synchronisation edges are happens-before edges.
// Scenarios: 0 SimpleLock, 1 PaddedLock, 2 PtrLock (all unlock variants, CAS, setValue),
// 3 ThreadRWlock, 4 region entry/return (sleeping pool), 5 region entry/return (fast mode),
// 6 lockable hand-over between for_each iterations.
// (barrier arrival->departure is decided by c05_barrier, worklist push->pop by c01_foreach,
//  both registered as further jobs of C06.)
#include "hcommon.h"
#include "galois/Galois.h"
#include "galois/substrate/SimpleLock.h"
#include "galois/substrate/PaddedLock.h"
#include "galois/substrate/PtrLock.h"
#include "galois/substrate/ThreadRWlock.h"
#include "galois/substrate/ThreadPool.h"
#include "galois/runtime/Context.h"
#include <forward_list>

namespace gsb = galois::substrate;
static const char* scen_names[] = {"SimpleLock", "PaddedLock", "PtrLock", "ThreadRWlock", "region-edges(sleep)", "region-edges(fast)", "lockable-handover"};
constexpr int MAXN = 32, MAXOPS = 64;

struct Op { unsigned char kind, work, aux; };
static Op prog[MAXN][MAXOPS];
static int holders, readers, writers;   // observation cells
static long* shared;                     // tracked plain data protected by the lock under test
static int dummy_payload[8];

template <class L>
static void run_mutex_scenario(gsb::ThreadPool& tp, int n, int k, const char* name) {
  L lock;
  long expect = 0;
  int acquired[MAXN] = {0};
  tp.run(n, [&]() {
    int tid = (int)gsb::ThreadPool::getTID();
    for (int i = 0; i < k; i++) {
      Op op = prog[tid][i];
      bool got = true;
      if (op.kind % 3 == 2) got = lock.try_lock(); else lock.lock();
      if (!got) { vsim_probe("try_lock_failed"); for (int y = 0; y < op.work; y++) vsim_yield(); continue; }
      int h = obs_add(&holders, 1);
      if (h != 0) vsim_fail("c06.mutex", "%s: thread %d entered the critical section while %d holder(s) inside", name, tid, h);
      long v = shared[0];               // plain read: must see the previous holder's write
      for (int y = 0; y < op.work; y++) vsim_yield();
      shared[0] = v + 1; shared[1 + (tid & 3)] = v;  // plain writes under the lock
      obs_add(&acquired[tid], 1);
      h = obs_add(&holders, -1);
      if (h != 1) vsim_fail("c06.mutex", "%s: %d holders at exit of thread %d", name, h, tid);
      lock.unlock();
    }
  });
  for (int t = 0; t < n; t++) expect += acquired[t];
  if (shared[0] != expect) vsim_fail("c06.mutex.count", "%s: protected counter %ld != %ld successful acquisitions (lost update)", name, shared[0], expect);
}

static void run_ptrlock(gsb::ThreadPool& tp, int n, int k) {
  gsb::PtrLock<int> lock;
  int* payload = nullptr;  // observation: what the pointer part must currently be
  int acquired[MAXN] = {0};
  tp.run(n, [&]() {
    int tid = (int)gsb::ThreadPool::getTID();
    for (int i = 0; i < k; i++) {
      Op op = prog[tid][i];
      if (op.kind % 7 == 6) {
        // CAS only succeeds on an unlocked word holding exactly `old`
        int* old = obs_load(&payload); int* nv = &dummy_payload[op.aux & 7];
        if (lock.CAS(old, nv)) { obs_store(&payload, nv); vsim_probe("ptrlock_cas_ok"); }
        continue;
      }
      bool got = true;
      if (op.kind % 7 == 5) got = lock.try_lock(); else lock.lock();
      if (!got) { vsim_probe("try_lock_failed"); continue; }
      int h = obs_add(&holders, 1);
      if (h != 0) vsim_fail("c06.mutex", "PtrLock: thread %d entered while %d holder(s) inside", tid, h);
      if (lock.getValue() != obs_load(&payload)) vsim_fail("c06.ptrlock.payload", "PtrLock: pointer payload %p after lock, expected %p", (void*)lock.getValue(), (void*)obs_load(&payload));
      long v = shared[0];
      for (int y = 0; y < op.work; y++) vsim_yield();
      shared[0] = v + 1;
      obs_add(&acquired[tid], 1);
      int* nv = &dummy_payload[op.aux & 7];
      if (op.aux & 8) { lock.setValue(nv); obs_store(&payload, nv); if (!lock.is_locked()) vsim_fail("c06.ptrlock.setvalue", "setValue cleared the lock bit"); }
      h = obs_add(&holders, -1);
      if (h != 1) vsim_fail("c06.mutex", "PtrLock: %d holders at exit", h);
      switch (op.kind % 3) {
      case 0: lock.unlock(); break;
      case 1: obs_store(&payload, (int*)nullptr); lock.unlock_and_clear(); break;
      default: obs_store(&payload, nv); lock.unlock_and_set(nv); break;
      }
    }
  });
  long expect = 0; for (int t = 0; t < n; t++) expect += acquired[t];
  if (shared[0] != expect) vsim_fail("c06.mutex.count", "PtrLock: protected counter %ld != %ld", shared[0], expect);
}

static void run_rwlock(gsb::ThreadPool& tp, int n, int k) {
  gsb::ThreadRWlock lock;
  int wacq[MAXN] = {0};
  tp.run(n, [&]() {
    int tid = (int)gsb::ThreadPool::getTID();
    for (int i = 0; i < k; i++) {
      Op op = prog[tid][i];
      if (op.kind % 4 == 0) {
        lock.writeLock();
        int w = obs_add(&writers, 1); int r = obs_load(&readers);
        if (w != 0 || r != 0) vsim_fail("c06.rwlock", "writer %d entered with %d writer(s) and %d reader(s) inside", tid, w, r);
        long v = shared[0];
        for (int y = 0; y < op.work; y++) vsim_yield();
        shared[0] = v + 1; shared[1] = v + 1;
        obs_add(&wacq[tid], 1);
        obs_add(&writers, -1);
        lock.writeUnlock();
      } else {
        lock.readLock();
        obs_add(&readers, 1);
        if (obs_load(&writers) != 0) vsim_fail("c06.rwlock", "reader %d entered while a writer is inside", tid);
        long a = shared[0];
        for (int y = 0; y < op.work; y++) vsim_yield();
        long b = shared[1];
        if (a != b) vsim_fail("c06.rwlock.torn", "reader %d saw a torn pair %ld/%ld", tid, a, b);
        if (obs_load(&writers) != 0) vsim_fail("c06.rwlock", "writer entered while reader %d inside", tid);
        obs_add(&readers, -1);
        lock.readUnlock();
      }
    }
  });
  long expect = 0; for (int t = 0; t < n; t++) expect += wacq[t];
  if (shared[0] != expect) vsim_fail("c06.mutex.count", "ThreadRWlock: counter %ld != %ld", shared[0], expect);
}

// master -> workers at region entry, workers -> master at return
static void run_region_edges(gsb::ThreadPool& tp, int hw, bool fast, int rounds) {
  long* in = (long*)vsim_tracked_alloc(sizeof(long) * 64);
  long* out = (long*)vsim_tracked_alloc(sizeof(long) * 64);
  for (int r = 1; r <= rounds; r++) {
    int n = (int)wl_range(1, hw);
    int kind = (int)wl_range(0, 3);
    galois::setActiveThreads(n);
    n = (int)galois::getActiveThreads();
    if (fast) tp.burnPower(n); else tp.beKind();
    vsim_phase("master-pre");
    for (int i = 0; i < 64; i++) in[i] = r * 1000 + i;   // plain writes before the region
    vsim_phase("region");
    switch (kind) {
    case 0:
      galois::on_each([&](unsigned tid, unsigned tot) {
        long v = in[tid];
        if (v != r * 1000 + (long)tid) vsim_fail("c06.region.entry", "on_each worker %u read stale input %ld in round %d", tid, v, r);
        out[tid] = v + 1;
      });
      vsim_phase("master-post");
      for (int t = 0; t < n; t++) if (out[t] != r * 1000 + t + 1) vsim_fail("c06.region.return", "master read out[%d]=%ld after on_each round %d", t, out[t], r);
      break;
    case 1: case 2: {
      auto body = [&](int i) { long v = in[i]; if (v != r * 1000 + i) vsim_fail("c06.region.entry", "do_all body read stale input"); out[i] = v + 1; };
      if (kind == 1) galois::do_all(galois::iterate(0, 48), body, galois::chunk_size<1>(), galois::steal());
      else galois::do_all(galois::iterate(0, 48), body, galois::chunk_size<4>());
      vsim_phase("master-post");
      for (int i = 0; i < 48; i++) if (out[i] != r * 1000 + i + 1) vsim_fail("c06.region.return", "master read out[%d]=%ld after do_all round %d", i, out[i], r);
      break; }
    default: {
      std::vector<int> init; for (int i = 0; i < 24; i++) init.push_back(i);
      galois::for_each(galois::iterate(init), [&](int i, auto& ctx) {
        long v = in[i]; if (v != r * 1000 + i) vsim_fail("c06.region.entry", "for_each body read stale input"); out[i] = v + 1;
        if (i < 24) ctx.push(i + 24);
      }, galois::disable_conflict_detection(), galois::wl<galois::worklists::PerSocketChunkFIFO<2>>());
      vsim_phase("master-post");
      for (int i = 0; i < 48; i++) if (out[i] != r * 1000 + i + 1) vsim_fail("c06.region.return", "master read out[%d]=%ld after for_each round %d", i, out[i], r);
      break; }
    }
    vsim_probe(fast ? "region_fast" : "region_sleep");
  }
  tp.beKind();
}

struct Cell : public galois::runtime::Lockable { long* data; };
static void run_handover(int hw) {
  int m = (int)wl_range(1, 6);
  std::vector<Cell> cells(m);
  long* data = (long*)vsim_tracked_alloc(sizeof(long) * 8);
  for (int i = 0; i < m; i++) cells[i].data = &data[i];
  int items = (int)wl_range(10, 60);
  std::vector<int> init; std::vector<std::array<unsigned char, 3>> nb(items);
  for (int i = 0; i < items; i++) { init.push_back(i); nb[i] = {(unsigned char)wl_range(0, m - 1), (unsigned char)wl_range(0, m - 1), (unsigned char)wl_range(0, 3)}; }
  int n = (int)wl_range(1, hw);
  galois::setActiveThreads(n);
  long commits[8] = {0};
  galois::for_each(galois::iterate(init), [&](int i, auto& ctx) {
    Cell& a = cells[nb[i][0]]; Cell& b = cells[nb[i][1]];
    galois::runtime::acquire(&a, galois::MethodFlag::WRITE);
    for (int y = 0; y < nb[i][2]; y++) vsim_yield();
    galois::runtime::acquire(&b, galois::MethodFlag::WRITE);
    // past the last acquire: we own a and b; plain read-modify-write of their data
    long va = *a.data; *a.data = va + 1; obs_add(&commits[nb[i][0]], 1L);
    if (&a != &b) { long vb = *b.data; *b.data = vb + 1; obs_add(&commits[nb[i][1]], 1L); }
  }, galois::wl<galois::worklists::PerSocketChunkFIFO<1>>(), galois::no_pushes());
  for (int i = 0; i < m; i++) if (data[i] != commits[i]) vsim_fail("c06.handover.count", "lockable %d: data %ld != %ld committed updates", i, data[i], commits[i]);
}

int main() {
  int cap = tier() ? 16 : 8;
  int maxT = (int)vsim_param("maxthreads", 2, cap);
  Machine m = draw_machine(maxT);
  int scen = (int)vsim_param("scenario", 0, 6);
  vsim_note("component", "scenario=%s", scen_names[scen]);
  vsim_enable_fault(VF_CAS_WEAK, 0.01, 0.2);
  vsim_enable_fault(VF_COND_SPURIOUS, 0.02, 0.3);
  vsim_set_budget(4000000);
  galois::SharedMemSys G;
  auto& tp = gsb::getThreadPool();
  int hw = (int)tp.getMaxThreads();
  shared = (long*)vsim_tracked_alloc(sizeof(long) * 8);
  int n = (int)wl_range(hw > 1 ? 2 : 1, hw);
  int k = (int)wl_range(3, tier() ? 40 : 16);
  for (int t = 0; t < n; t++) for (int i = 0; i < k; i++) prog[t][i] = Op{(unsigned char)wl_range(0, 41), (unsigned char)(wl_chance(40) ? wl_range(1, 5) : 0), (unsigned char)wl_range(0, 15)};
  vsim_note("plan", "n=%d ops/thread=%d", n, k);
  switch (scen) {
  case 0: run_mutex_scenario<gsb::SimpleLock>(tp, n, k, "SimpleLock"); break;
  case 1: run_mutex_scenario<gsb::PaddedLock<true>>(tp, n, k, "PaddedLock"); break;
  case 2: run_ptrlock(tp, n, k); break;
  case 3: run_rwlock(tp, n, k); break;
  case 4: run_region_edges(tp, hw, false, (int)wl_range(2, 6)); break;
  case 5: run_region_edges(tp, hw, true, (int)wl_range(2, 6)); break;
  default: run_handover(hw); break;
  }
  return 0;
}
