// C16 — ParallelSTL algorithms equal their std:: counterparts.
#include "hcommon.h"
#include "galois/Galois.h"
#include "galois/ParallelSTL.h"
#include <algorithm>
#include <numeric>

struct El { int key; int id; };
static int live_objects;
struct Obj { long v; Obj() : v(0) { obs_add(&live_objects, 1); } explicit Obj(long x) : v(x) { obs_add(&live_objects, 1); } Obj(const Obj& o) : v(o.v) { obs_add(&live_objects, 1); } ~Obj() { obs_add(&live_objects, -1); } };

static std::vector<El> gen(int n, int shape) {
  std::vector<El> v(n);
  for (int i = 0; i < n; i++) {
    int k;
    switch (shape) {
    case 0: k = (int)wl_range(0, 1000000); break;
    case 1: k = 7; break;                       // all equal
    case 2: k = i; break;                       // sorted
    case 3: k = n - i; break;                   // reversed
    case 4: k = (int)wl_range(0, 3); break;     // few distinct keys
    case 5: k = (i * 7919) % 1000; break;
    case 6: k = i < n / 2 ? 1 : 0; break;       // anti-partitioned halves: blocks exhaust simultaneously
    case 7: k = (i / 1024) % 2; break;          // alternating blocks
    default: k = (i / 512) % 2 ? 0 : 1; break;
    }
    v[i] = El{k, i};
  }
  return v;
}
static bool same_multiset(std::vector<El> a, std::vector<El> b) {
  auto lt = [](const El& x, const El& y) { return x.id < y.id; };
  std::sort(a.begin(), a.end(), lt); std::sort(b.begin(), b.end(), lt);
  if (a.size() != b.size()) return false;
  for (size_t i = 0; i < a.size(); i++) if (a[i].id != b[i].id || a[i].key != b[i].key) return false;
  return true;
}

int main() {
  int cap = tier() ? 16 : 8;
  int maxT = (int)vsim_param("maxthreads", 1, cap);
  Machine m = draw_machine(maxT);
  // weighted: the algorithms with shared helper state (partition, sort, partial_sum) get most of the runs
  static const int AW[20] = {1, 1, 1, 1, 1, 1, 0, 0, 0, 0, 0, 6, 6, 6, 2, 3, 4, 4, 5, 7};
  int algo = AW[vsim_param("algo_w", 0, 19)];
  { long forced = (long)vsim_param_fixed("algo", -1); if (forced >= 0) algo = (int)forced; }
  static const char* an[] = {"sort", "partition", "count_if", "find_if", "accumulate", "map_reduce", "partial_sum", "destroy"};
  vsim_note("component", "algo=%s", an[algo]);
  vsim_enable_fault(VF_CAS_WEAK, 0.005, 0.1);
  vsim_enable_fault(VF_PLAIN_PREEMPT, 0.05, 0.9);   // shared helper state of the algorithms is plain data behind locks
  vsim_set_budget(8000000);
  galois::SharedMemSys G;
  int hw = (int)galois::substrate::getThreadPool().getMaxThreads();
  int nthr = (int)wl_range(1, hw);
  galois::setActiveThreads(nthr); nthr = (int)galois::getActiveThreads();
  int sizes[] = {0, 1, 2, 100, 1023, 1024, 1025, 1500, 2047, 2048, 2049, 3072, 4097, 4096, 5120, 6144, 8192, (int)wl_range(1025, tier() ? 12000 : 5000), (int)wl_range(2, 1100)};
  int n = sizes[wl_range(0, 18)];
  if (algo == 1 && wl_chance(40)) { n = (int)wl_range(4096, tier() ? 40000 : 14000); nthr = (int)wl_range(std::min(3, hw), hw); galois::setActiveThreads(nthr); nthr = (int)galois::getActiveThreads(); }   // many blocks, many left-over blocks
  int shape = (int)wl_range(0, 8);
  std::vector<El> in = gen(n, shape);
  int thr = (int)wl_range(0, 4);
  // predicates: generated threshold, all-true, all-false
  int pivot = thr == 0 ? -1 : thr == 1 ? 2000000 : (shape == 4 || shape >= 6) ? 1 : shape == 1 ? (int)wl_range(6, 8) : in.empty() ? 0 : in[wl_range(0, n - 1)].key;
  auto pred = [pivot](const El& e) { return e.key < pivot; };
  vsim_note("plan", "n=%d shape=%d pivot=%d threads=%d", n, shape, pivot, nthr);
  namespace P = galois::ParallelSTL;
  vsim_plain_preempt_window(1);   // predicates and comparators are pure; the checks after each call run on the main thread alone
  switch (algo) {
  case 0: {
    std::vector<El> a = in, b = in;
    bool desc = wl_chance(30);
    auto cmp = [desc](const El& x, const El& y) { return desc ? x.key > y.key : x.key < y.key; };
    if (n) vsim_hb_watch(a.data(), a.size() * sizeof(El));   // two threads touching one element without ordering = data race, whatever the result
    P::sort(a.begin(), a.end(), cmp);
    vsim_hb_unwatch_all();
    if (!std::is_sorted(a.begin(), a.end(), cmp)) vsim_fail("c16.sort.order", "ParallelSTL::sort(n=%d, shape=%d, %d threads): result is not sorted", n, shape, nthr);
    if (!same_multiset(a, b)) vsim_fail("c16.sort.permutation", "ParallelSTL::sort(n=%d): result is not a permutation of the input", n);
    break; }
  case 1: {
    std::vector<El> a = in;
    if (n) vsim_hb_watch(a.data(), a.size() * sizeof(El));
    auto it = P::partition(a.begin(), a.end(), pred);
    vsim_hb_unwatch_all();
    long pp = it - a.begin();
    long expect = std::count_if(in.begin(), in.end(), pred);
    long bad = 0; for (long i = 0; i < n; i++) if (pred(a[i]) != (i < pp)) bad++;
    if (pp != expect || bad) vsim_fail("c16.partition", "ParallelSTL::partition(n=%d, shape=%d, pivot=%d, %d threads) returned position %ld, std::partition gives %ld; %ld element(s) on the wrong side", n, shape, pivot, nthr, pp, expect, bad);
    if (!same_multiset(a, in)) vsim_fail("c16.partition.permutation", "ParallelSTL::partition(n=%d): result is not a permutation of the input", n);
    break; }
  case 2: {
    size_t c = P::count_if(in.begin(), in.end(), pred), e = (size_t)std::count_if(in.begin(), in.end(), pred);
    if (c != e) vsim_fail("c16.count_if", "count_if = %zu, std::count_if = %zu (n=%d)", c, e, n);
    break; }
  case 3: {
    auto it = P::find_if(in.begin(), in.end(), pred);
    bool exists = std::any_of(in.begin(), in.end(), pred);
    if (exists && (it == in.end() || !pred(*it))) vsim_fail("c16.find_if", "find_if returned %s although a matching element exists (n=%d, %d threads)", it == in.end() ? "last" : "a non-matching element", n, nthr);
    if (!exists && it != in.end()) vsim_fail("c16.find_if", "find_if returned an element although none matches");
    break; }
  case 4: {
    std::vector<long> v; for (auto& e : in) v.push_back(e.key - 500);
    long got = P::accumulate(v.begin(), v.end(), 0L, std::plus<long>()), exp = std::accumulate(v.begin(), v.end(), 0L);
    if (got != exp) vsim_fail("c16.accumulate", "accumulate = %ld, std::accumulate = %ld (n=%d)", got, exp, n);
    long gmx = P::accumulate(v.begin(), v.end(), std::numeric_limits<long>::lowest(), [](long a, long b) { return std::max(a, b); });
    long emx = std::accumulate(v.begin(), v.end(), std::numeric_limits<long>::lowest(), [](long a, long b) { return std::max(a, b); });
    if (gmx != emx) vsim_fail("c16.accumulate", "accumulate(max) = %ld, expected %ld", gmx, emx);
    break; }
  case 5: {
    long got = P::map_reduce(in.begin(), in.end(), [](const El& e) { return (long)e.key * 3 + 1; }, std::plus<long>(), 0L);
    long exp = 0; for (auto& e : in) exp += (long)e.key * 3 + 1;
    if (got != exp) vsim_fail("c16.map_reduce", "map_reduce = %ld, sequential = %ld (n=%d)", got, exp, n);
    break; }
  case 6: {
    std::vector<long> v, out(n), ref(n); for (auto& e : in) v.push_back(e.key % 1000 - 300);
    if (n) { vsim_hb_watch(v.data(), v.size() * sizeof(long)); vsim_hb_watch(out.data(), out.size() * sizeof(long)); }
    auto r = P::partial_sum(v.begin(), v.end(), out.begin());
    vsim_hb_unwatch_all();
    std::partial_sum(v.begin(), v.end(), ref.begin());
    if (out != ref) { long k = 0; while (k < n && out[k] == ref[k]) k++; vsim_fail("c16.partial_sum", "partial_sum differs from std::partial_sum at index %ld of %d (%ld vs %ld), %d threads", k, n, out[k], ref[k], nthr); }
    if (r != out.begin() + n) vsim_fail("c16.partial_sum.return", "partial_sum returned an iterator %ld past the start, expected %d", (long)(r - out.begin()), n);
    break; }
  default: {
    Obj* raw = (Obj*)malloc(sizeof(Obj) * (n ? n : 1));
    for (int i = 0; i < n; i++) new (&raw[i]) Obj(i);
    if (live_objects != n) vsim_fail("c16.destroy", "harness construction count off");
    P::destroy(raw, raw + n);
    if (live_objects != 0) vsim_fail("c16.destroy", "destroy left %d of %d objects alive (or destroyed some twice)", live_objects, n);
    free(raw);
    break; }
  }
  return 0;
}
