// C09 — allocators hand out disjoint, aligned, sufficiently large live blocks.
// Histories of alloc/free are spread over simulated threads (incl. frees on another thread);
// oracle = shadow interval map + canaries.  (The per-iteration allocator is covered by the
// "pia" instantiations of c01_foreach, also registered for C09.)
#include "hcommon.h"
#include "galois/Galois.h"
#include "galois/LargeArray.h"
#include "galois/runtime/Mem.h"
#include "galois/runtime/PagePool.h"
#include "galois/substrate/NumaMem.h"
#include "galois/substrate/PerThreadStorage.h"
#include <map>
#include <memory>

namespace grt = galois::runtime;
namespace gsb = galois::substrate;

struct Blk { size_t size; unsigned canary; int owner; };
static std::map<uintptr_t, Blk> live;        // shadow interval map (harness side)
static std::vector<uintptr_t> live_list;
static unsigned next_canary = 1;
static int nthr;
static uint64_t rng[64];
static uint64_t trand(int t) { uint64_t& r = rng[t]; r ^= r << 13; r ^= r >> 7; r ^= r << 17; return r * 0x2545F4914F6CDD1Dull; }

// Harness bookkeeping (shadow map, live list, request tables) is shared between the simulated threads and relies on running
// atomically: worker code holds plain-access decision points off and releases them only around calls into the library.
#define LIB(expr) ([&]() -> decltype(auto) { vsim_plain_hold(0); struct R_ { ~R_() { vsim_plain_hold(1); } } r_; return (expr); })()
template <class F> static void par(F f) {
  vsim_plain_preempt_window(1);
  galois::on_each([&](unsigned tid, unsigned n) { VsimPlainHold hold; f(tid, n); });
  vsim_plain_preempt_window(0);
}
static void fill(void* p, size_t n, unsigned c, bool sparse) {
  unsigned char* b = (unsigned char*)p;
  if (!sparse) { for (size_t i = 0; i < n; i++) b[i] = (unsigned char)(c + i * 31); return; }
  for (size_t i = 0; i < n; i += 509) b[i] = (unsigned char)(c + i * 31);
  if (n) b[n - 1] = (unsigned char)(c + (n - 1) * 31);
}
static bool verify(const void* p, size_t n, unsigned c, bool sparse) {
  const unsigned char* b = (const unsigned char*)p;
  if (!sparse) { for (size_t i = 0; i < n; i++) if (b[i] != (unsigned char)(c + i * 31)) return false; return true; }
  for (size_t i = 0; i < n; i += 509) if (b[i] != (unsigned char)(c + i * 31)) return false;
  return !n || b[n - 1] == (unsigned char)(c + (n - 1) * 31);
}
// register a freshly returned block: non-null, aligned, disjoint from every live block
static void on_alloc(const char* what, void* p, size_t size, size_t align, int tid) {
  if (!p) vsim_fail("c09.null", "%s returned a null pointer for a request of %zu bytes (thread %d)", what, size, tid);
  uintptr_t a = (uintptr_t)p;
  if (align && a % align) vsim_fail("c09.alignment", "%s returned %p for %zu bytes: not aligned to %zu", what, p, size, align);
  auto it = live.lower_bound(a);
  if (it != live.end() && it->first < a + size) vsim_fail("c09.overlap", "%s returned [%p,+%zu) overlapping the live block [%p,+%zu)", what, p, size, (void*)it->first, it->second.size);
  if (it != live.begin()) { auto pr = std::prev(it); if (pr->first + pr->second.size > a) vsim_fail("c09.overlap", "%s returned [%p,+%zu) inside the live block [%p,+%zu)", what, p, size, (void*)pr->first, pr->second.size); }
  unsigned c = next_canary++;
  bool sparse = size > 8192;
  fill(p, size, c, sparse);
  live[a] = Blk{size, c, tid};
  live_list.push_back(a);
}
static void on_free(const char* what, uintptr_t a) {
  auto it = live.find(a);
  if (!verify((void*)a, it->second.size, it->second.canary, it->second.size > 8192)) vsim_fail("c09.canary", "%s: block [%p,+%zu) was overwritten while live", what, (void*)a, it->second.size);
  live.erase(it);
}
static uintptr_t pick_live(int tid) {
  if (live_list.empty()) return 0;
  size_t k = trand(tid) % live_list.size();
  uintptr_t a = live_list[k]; live_list[k] = live_list.back(); live_list.pop_back();
  return a;
}
static void verify_all(const char* what) { for (auto& kv : live) if (!verify((void*)kv.first, kv.second.size, kv.second.canary, kv.second.size > 8192)) vsim_fail("c09.canary", "%s: live block [%p,+%zu) was overwritten", what, (void*)kv.first, kv.second.size); }

template <class Alloc, class Free>
static void churn(const char* what, int ops, int free_pct, Alloc al, Free fr) {
  par([&](unsigned tid, unsigned) {
    for (int i = 0; i < ops; i++) {
      if ((int)(trand(tid) % 100) < free_pct) { uintptr_t a = pick_live(tid); if (a) { on_free(what, a); fr((void*)a, tid); } }
      else al(tid);
      if (trand(tid) % 3 == 0) vsim_yield();
    }
  });
  verify_all(what);
}

template <size_t N> struct Blob { unsigned char b[N]; };
template <size_t N> struct PTS {
  static void run(int tid, int rounds) {
    for (int r = 0; r < rounds; r++) {
      auto* s = LIB(new gsb::PerThreadStorage<Blob<N>>());
      unsigned c = obs_add(&next_canary, 1u);
      unsigned maxT = gsb::getThreadPool().getMaxThreads();
      std::vector<uintptr_t> mine;
      for (unsigned t = 0; t < maxT; t++) {
        void* p = s->getRemote(t);
        // per-thread regions of different threads live in different 2MB areas; key the shadow map by address
        on_alloc("PerThreadStorage", p, N, 128, tid);
        mine.push_back((uintptr_t)p);
        (void)c;
      }
      if (s->getLocal() != s->getRemote(gsb::ThreadPool::getTID())) vsim_fail("c09.pts.local", "getLocal() != getRemote(own tid)");
      for (int y = 0; y < (int)(trand(tid) % 4); y++) vsim_yield();
      for (uintptr_t a : mine) { on_free("PerThreadStorage", a); for (size_t k = 0; k < live_list.size(); k++) if (live_list[k] == a) { live_list[k] = live_list.back(); live_list.pop_back(); break; } }
      LIB((delete s, 0));
    }
  }
};

// ---- scenario 7: type-erased per-thread-storage objects of many size classes --------------------------------------
struct PObj { void* obj; void (*del)(void*); void* (*mov)(void*); size_t size; std::vector<uintptr_t> addr; unsigned off; unsigned cls; };
template <size_t N> static PObj make_pobj() {
  auto* s = new gsb::PerThreadStorage<Blob<N>>();
  PObj o; o.obj = s; o.del = [](void* q) { delete (gsb::PerThreadStorage<Blob<N>>*)q; }; o.size = N;
  // move-construct a new owner and destroy the moved-from object: the offset stays in use
  o.mov = [](void* q) -> void* { auto* old = (gsb::PerThreadStorage<Blob<N>>*)q; auto* nw = new gsb::PerThreadStorage<Blob<N>>(std::move(*old)); delete old; return nw; };
  unsigned maxT = gsb::getThreadPool().getMaxThreads();
  for (unsigned t = 0; t < maxT; t++) o.addr.push_back((uintptr_t)s->getRemote(t));
  return o;
}
typedef PObj (*mk_t)();
static const mk_t MK[] = {make_pobj<1>, make_pobj<128>, make_pobj<129>, make_pobj<700>, make_pobj<4096>, make_pobj<5000>, make_pobj<20000>, make_pobj<(1 << 15)>,
                          make_pobj<65536>, make_pobj<100000>, make_pobj<(1 << 18)>, make_pobj<300000>, make_pobj<(1 << 19) + 1>};
static const size_t MKSZ[] = {1, 128, 129, 700, 4096, 5000, 20000, 1 << 15, 65536, 100000, 1 << 18, 300000, (1 << 19) + 1};
static unsigned cls_of(size_t n) { unsigned i = 7; while ((1ul << i) < n) i++; return i; }

int main() {
  int cap = tier() ? 16 : 8;
  int maxT = (int)vsim_param("maxthreads", 1, cap);
  Machine m = draw_machine(maxT);
  int scen = (int)vsim_param("scenario", 0, 7);
  static const char* sn[] = {"FixedSizeHeap", "Pow_2_BlockHeap", "VariableSizeHeap", "PagePool", "PerThreadStorage", "largeMalloc/LargeArray", "PerThreadStorage-freelist", "PerThreadStorage-history"};
  vsim_note("component", "alloc=%s", sn[scen]);
  vsim_enable_fault(VF_CAS_WEAK, 0.005, 0.1);
  vsim_enable_fault(VF_PLAIN_PREEMPT, 0.02, 0.6);   // plain shared data of the library (behind locks, in shared helper state) becomes preemptible
  vsim_enable_fault(VF_HUGE_REFUSED, 0.2, 0.9);
  vsim_set_budget(6000000);
  galois::SharedMemSys G;
  int hw = (int)gsb::getThreadPool().getMaxThreads();
  nthr = (int)wl_range(1, hw);
  galois::setActiveThreads(nthr); nthr = (int)galois::getActiveThreads();
  for (int t = 0; t < 64; t++) rng[t] = vsim_wl_rand() | 1;
  int ops = (int)wl_range(5, tier() ? 120 : 40);
  int free_pct = (int)wl_range(10, 60);
  switch (scen) {
  case 0: {
    static const size_t cls[] = {1, 7, 8, 9, 16, 24, 31, 32, 33, 48, 64, 100, 128, 255, 256, 1000, 4096};
    size_t s = cls[wl_range(0, 16)];
    grt::FixedSizeHeap heap(s); grt::FixedSizeHeap heap2(s < 64 ? s + 8 : s / 2);
    vsim_note("plan", "size=%zu threads=%d ops=%d free%%=%d", s, nthr, ops, free_pct);
    size_t s2 = s < 64 ? s + 8 : s / 2;
    std::map<uintptr_t, int> which;
    churn("FixedSizeHeap", ops, free_pct,
          [&](int tid) { void* p; if (trand(tid) & 1) { p = LIB(heap.allocate(s)); on_alloc("FixedSizeHeap", p, s, 8, tid); which[(uintptr_t)p] = 0; } else { p = LIB(heap2.allocate(s2)); on_alloc("FixedSizeHeap", p, s2, 8, tid); which[(uintptr_t)p] = 1; } },
          [&](void* p, int) { /* thread-private free lists: the block goes to the freeing thread's list of its size class */
            int w = which[(uintptr_t)p]; which.erase((uintptr_t)p); if (w) LIB((heap2.deallocate(p), 0)); else LIB((heap.deallocate(p), 0)); });
    break; }
  case 1: {
    auto& ph = *grt::Pow_2_BlockHeap::getInstance();
    std::map<uintptr_t, size_t> req;
    vsim_note("plan", "threads=%d ops=%d free%%=%d", nthr, ops, free_pct);
    churn("Pow_2_BlockHeap", ops, free_pct,
          [&](int tid) { unsigned i = 1 + (unsigned)(trand(tid) % 17); size_t sz = (size_t(1) << i) + (size_t)(trand(tid) % 3) - 1; if (sz == 0) sz = 1; if (trand(tid) % 50 == 0) sz = 70000 + trand(tid) % 100000;
                         void* p = LIB(ph.allocateBlock(sz)); on_alloc("Pow_2_BlockHeap", p, sz, 8, tid); req[(uintptr_t)p] = sz; },
          [&](void* p, int) { size_t sz = req[(uintptr_t)p]; req.erase((uintptr_t)p); LIB((ph.deallocateBlock(p, sz), 0)); });
    break; }
  case 2: {
    grt::VariableSizeHeap vh;
    vsim_note("plan", "threads=%d ops=%d", nthr, ops);
    bool first_overload2 = wl_chance(50);
    churn("VariableSizeHeap", ops, 0,
          [&](int tid) {
            size_t sz = 1 + (size_t)(trand(tid) % (trand(tid) % 10 == 0 ? 600000 : 3000));
            if (trand(tid) % 25 == 0) sz = (2u << 20) - 64 + trand(tid) % 4096;   // around and beyond one page: the second overload must clamp
            bool second = first_overload2 ? true : (trand(tid) % 3 == 0);
            if (sz > (2u << 20) - 64) second = true;   // allocate(size) aborts by design beyond a page
            if (second) { size_t got = 0; void* p = LIB(vh.allocate(sz, got)); if (got == 0 || got > sz) vsim_fail("c09.vsh.allocated", "allocate(%zu, allocated) reported %zu bytes", sz, got); on_alloc("VariableSizeHeap::allocate(size,allocated&)", p, got, 8, tid); }
            else on_alloc("VariableSizeHeap::allocate(size)", LIB(vh.allocate(sz)), sz, 8, tid);
          },
          [&](void*, int) {});
    vh.clear(); live.clear(); live_list.clear();
    break; }
  case 3: {
    vsim_note("plan", "threads=%d ops=%d free%%=%d", nthr, ops, free_pct);
    if (wl_chance(50)) grt::pagePoolPreAlloc((unsigned)wl_range(1, 4));
    size_t ps = grt::pagePoolSize();
    int cap_pages = 24;
    churn("pagePool", ops, free_pct,
          [&](int tid) { if ((int)live.size() >= cap_pages) return; on_alloc("pagePoolAlloc", LIB(grt::pagePoolAlloc()), ps, 2u << 20, tid); },
          [&](void* p, int) { LIB((grt::pagePoolFree(p), 0)); });
    while (!live_list.empty()) { uintptr_t a = pick_live(0); on_free("pagePool", a); grt::pagePoolFree((void*)a); }
    break; }
  case 4: {
    vsim_note("plan", "threads=%d", nthr);
    int rounds = (int)wl_range(1, 4);
    // random part: capacity model keeps the sum of rounded live sizes far below the 2MB area
    par([&](unsigned tid, unsigned) {
      for (int r = 0; r < rounds; r++) {
        switch (trand(tid) % 7) {
        case 0: PTS<1>::run(tid, 1); break; case 1: PTS<100>::run(tid, 1); break; case 2: PTS<128>::run(tid, 1); break; case 3: PTS<129>::run(tid, 1); break;
        case 4: PTS<1000>::run(tid, 1); break; case 5: PTS<4096>::run(tid, 1); break; default: PTS<20000>::run(tid, 1); break;
        }
      }
    });
    break; }
  case 5: {
    vsim_note("plan", "threads=%d", nthr);
    std::vector<gsb::LAptr> ptrs;
    for (int i = 0; i < (int)wl_range(1, 6); i++) {
      size_t bytes = (size_t)wl_range(1, wl_chance(30) ? 5 << 20 : 200000);
      int kind = (int)wl_range(0, 3);
      gsb::LAptr p = kind == 0 ? gsb::largeMallocLocal(bytes) : kind == 1 ? gsb::largeMallocFloating(bytes) : kind == 2 ? gsb::largeMallocInterleaved(bytes, nthr) : gsb::largeMallocBlocked(bytes, nthr);
      on_alloc("largeMalloc", p.get(), bytes, 4096, 0);
      ptrs.push_back(std::move(p));
    }
    galois::LargeArray<long> la; size_t n = (size_t)wl_range(0, 100000);
    switch (wl_range(0, 3)) { case 0: la.allocateInterleaved(n); break; case 1: la.allocateBlocked(n); break; case 2: la.allocateLocal(n); break; default: la.allocateFloating(n); }
    if (la.size() != n) vsim_fail("c09.largearray.size", "LargeArray::size() = %zu after allocating %zu elements", la.size(), n);
    if (n) on_alloc("LargeArray", &la[0], n * sizeof(long), 8, 0);
    verify_all("largeMalloc");
    while (!live_list.empty()) on_free("largeMalloc", pick_live(0));
    break; }
  case 7: {
    // Sequential random history of create/destroy over 13 sizes (classes 2^7..2^20) issued by changing threads.  A
    // satisfiability model (bump position with tail recovery, count of free offsets per class with the documented
    // smallest-bigger split) only decides which requests may be issued -- exhausting the 2MB area is a documented abort,
    // not a property violation; what is returned is judged by the shadow map alone: every thread's block inside that
    // thread's area, cache-line aligned, disjoint from all live blocks.
    vsim_note("plan", "threads=%d ops=%d", nthr, ops * 3);
    const size_t AREA = 2u << 20;
    unsigned maxT = gsb::getThreadPool().getMaxThreads();
    PObj probe = make_pobj<1>();
    std::vector<uintptr_t> base(maxT);
    for (unsigned t = 0; t < maxT; t++) base[t] = probe.addr[t] & ~(uintptr_t)(AREA - 1);
    size_t bump = (probe.addr[0] - base[0]) + 128;
    std::vector<int> cnt(32, 0);
    std::vector<PObj> objs;
    int nops = ops * 3, done_ops = 0;
    int focus_lo = (int)wl_range(0, 8), focus_hi = (int)wl_range(focus_lo, 12);   // per run: a narrow band of sizes makes class collisions likely
    while (done_ops < nops) {
      int actor = (int)wl_range(0, nthr - 1), batch = (int)wl_range(1, 8);
      par([&](unsigned tid, unsigned) {
        if ((int)tid != actor) return;
        for (int b = 0; b < batch; b++) {
          bool destroy = !objs.empty() && (int)(trand(tid) % 100) < free_pct + 10;
          if (!destroy) {
            int k = (int)(focus_lo + trand(tid) % (focus_hi - focus_lo + 1));
            unsigned c = cls_of(MKSZ[k]); size_t sz = (size_t)1 << c;
            bool ok = false; int from = -1;
            if (bump + sz <= AREA) ok = true;
            else { for (unsigned q = c; q < 30; q++) if (cnt[q] > 0) { from = (int)q; ok = true; break; } }
            if (!ok) { destroy = !objs.empty(); if (!destroy) continue; }
            else {
              PObj o = LIB(MK[k]());
              o.cls = c; o.off = (unsigned)(o.addr[0] - base[0]);
              for (unsigned t = 0; t < maxT; t++) {
                if (o.addr[t] - base[t] != o.off) vsim_fail("c09.pts.offset", "PerThreadStorage object of %zu bytes: thread %u sees offset %zu, thread 0 offset %u", o.size, t, (size_t)(o.addr[t] - base[t]), o.off);
                if (o.off + o.size > AREA) vsim_fail("c09.size", "PerThreadStorage object of %zu bytes placed at offset %u: does not fit the %zu byte per-thread area", o.size, o.off, AREA);
                on_alloc("PerThreadStorage", (void*)o.addr[t], o.size, 128, (int)tid);
              }
              if (from < 0) bump += sz; else { cnt[from]--; for (int q = from - 1; q >= (int)c; q--) cnt[q]++; }
              objs.push_back(o);
              vsim_probe_add(from < 0 ? "pts_bump" : (from == (int)c ? "pts_exact" : "pts_split"), 1);
            }
          }
          if (!objs.empty() && trand(tid) % 5 == 0) {
            PObj& o = objs[trand(tid) % objs.size()];
            o.obj = LIB(o.mov(o.obj));
            vsim_probe_add("pts_moved", 1);
          }
          if (destroy) {
            size_t i = trand(tid) % objs.size();
            PObj o = objs[i]; objs[i] = objs.back(); objs.pop_back();
            for (uintptr_t a : o.addr) { on_free("PerThreadStorage", a); for (size_t z = 0; z < live_list.size(); z++) if (live_list[z] == a) { live_list[z] = live_list.back(); live_list.pop_back(); break; } }
            LIB((o.del(o.obj), 0));
            size_t sz = (size_t)1 << o.cls;
            if (o.off + sz == bump) bump = o.off; else cnt[o.cls]++;
          }
          if (trand(tid) % 4 == 0) vsim_yield();
        }
      });
      done_ops += batch;
    }
    verify_all("PerThreadStorage-history");
    for (auto& o : objs) { for (uintptr_t a : o.addr) on_free("PerThreadStorage", a); o.del(o.obj); }
    probe.del(probe.obj);
    live.clear(); live_list.clear();
    break; }
  default: {
    // constructed free-list / "change" scenario on the per-thread-storage offsets: fill the bump area with
    // 1MB, 512KB, ..., 64KB, free the 1MB block (not at the end -> free list), then request classes <= 1MB
    vsim_note("plan", "threads=%d", nthr);
    auto* a1 = new gsb::PerThreadStorage<Blob<(1 << 20) - 64>>();
    auto* a2 = new gsb::PerThreadStorage<Blob<(1 << 19)>>();
    auto* a3 = new gsb::PerThreadStorage<Blob<(1 << 18)>>();
    auto reg = [&](void* p, size_t n) { on_alloc("PerThreadStorage", p, n, 128, 0); };
    reg(a2->getRemote(0), 1 << 19); reg(a3->getRemote(0), 1 << 18);
    delete a1;   // 1MB block in the middle of the bump area -> free list of class 2^20
    par([&](unsigned tid, unsigned) {
      // concurrent requests all satisfiable from the split remainder (sum <= 1MB): 4 x <=64KB per thread at most 8 threads
      for (int r = 0; r < 3; r++) {
        switch (trand(tid) % 4) { case 0: PTS<300>::run(tid, 1); break; case 1: PTS<5000>::run(tid, 1); break; case 2: PTS<30000>::run(tid, 1); break; default: PTS<(1 << 15)>::run(tid, 1); break; }
      }
    });
    verify_all("PerThreadStorage-freelist");
    delete a3; delete a2;
    live.clear(); live_list.clear();
    break; }
  }
  vsim_probe_add("blocks_allocated", next_canary);
  return 0;
}
