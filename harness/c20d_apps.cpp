// C20 (distributed half) — D-Galois applications compute the correct answer on every host layout.
// The REAL application source (lonestar/analytics/distributed/...) is compiled into this binary with its main() renamed;
// 1-4 simulated hosts (processes on one scheduler, simulated MPI) run it on a generated graph with a drawn partitioning
// policy, execution mode and thread count; every host writes its masters' results with the application's own -output
// option and the parent compares the union with an independent reference.
//   -DAPP=1 bfs_push 2 bfs_pull 3 sssp_push 4 sssp_pull 5 cc_push 6 cc_pull 7 kcore_push 8 kcore_pull
#include "grwriter.h"
#include <algorithm>
#include <functional>
#include <sys/stat.h>
#include <map>
#include <numeric>
#include <queue>
#include <set>
#include <sstream>
#include <string>

int app_main(int, char**);
#ifndef APP
#define APP 1
#endif

static int nhosts, threads_per_host;
static std::vector<std::string> args;
static std::string outdir;

static int hostmain(int me) {
  std::vector<char*> argv; for (auto& a : args) argv.push_back((char*)a.c_str()); argv.push_back(nullptr);
  int rc = app_main((int)args.size(), argv.data());
  fflush(stdout);
  (void)me;
  return rc;
}

static gr::Model finish(uint32_t n, std::vector<gr::Edge> es) {
  gr::Model m; m.n = n;
  std::stable_sort(es.begin(), es.end(), [](auto& a, auto& b) { return a.src < b.src; });
  m.edges = es; m.end.assign(n, 0);
  for (auto& e : m.edges) m.end[e.src]++;
  for (uint32_t i = 1; i < n; i++) m.end[i] += m.end[i - 1];
  return m;
}

int main() {
  nhosts = (int)vsim_param("hosts", 1, 4);
  int cores[1] = {(int)vsim_param("cores_per_host", 2, 4)};
  vsim_set_topology(1, cores, 1, 0);
  threads_per_host = (int)vsim_param("threads", 1, cores[0] - 1);
  static const char* pols[] = {"oec", "iec", "hovc", "hivc", "cvc", "cvc-iec", "ginger-o", "ginger-i", "fennel-o", "fennel-i", "sugar-o"};
  int policy = (int)vsim_param("policy", 0, 10);
  int async = (int)vsim_param("async", 0, 1);
  static const char* appn[] = {"", "bfs_push", "bfs_pull", "sssp_push", "sssp_pull", "cc_push", "cc_pull", "kcore_push", "kcore_pull"};
  vsim_note("component", "dist-app=%s %s", appn[APP], async ? "async" : "sync");
  vsim_enable_fault(VF_MSG_DELAY, 0.05, 0.6);
  vsim_enable_fault(VF_IPROBE_MISS, 0.05, 0.5);
  vsim_enable_fault(VF_TEST_LAZY, 0.05, 0.5);
  vsim_enable_fault(VF_HOST_STALL, 0.0002, 0.004);
  vsim_set_budget(12000000);
  // ---- input ----
  int maxn = tier() ? 120 : 40;
  if (policy >= 6) maxn = nhosts >= 3 ? (tier() ? 30 : 14) : (tier() ? 60 : 24);   // the streaming policies exchange state per node: keep their runs inside the real-time watchdog
  gr::Model m = gr::generate(maxn, false);
  if (m.n == 0) { m.n = 1; m.end.assign(1, 0); }
  bool weighted = APP == 3 || APP == 4, symmetric = APP >= 5;
  std::vector<gr::Edge> es = m.edges;
  for (auto& e : es) e.data = weighted ? (uint64_t)wl_range(1, wl_chance(10) ? 5000 : 30) : 0;
  if (symmetric) { std::vector<gr::Edge> s2; std::set<std::pair<uint32_t, uint32_t>> seen; for (auto& e : es) { if (e.src == e.dst) continue; auto k = std::minmax(e.src, e.dst); if (!seen.insert({k.first, k.second}).second) continue; s2.push_back({e.src, e.dst, 0}); s2.push_back({e.dst, e.src, 0}); } es = s2; }
  if (policy >= 6 && es.empty()) { if (m.n < 2) m.n = 2; es.push_back({0, 1, weighted ? 3u : 0u}); if (symmetric) es.push_back({1, 0, 0}); }   // streaming policies on an edge-less graph: known finding of C18/C19
  m = finish(m.n, es);
  std::vector<gr::Edge> tes; for (auto& e : m.edges) tes.push_back({e.dst, e.src, e.data});
  gr::Model tm = finish(m.n, tes);
  std::string dir = vsim_workdir(), path = dir + "/g.gr", tpath = dir + "/g.tgr";
  size_t se = weighted ? 4 : 0;
  gr::write_file(path, gr::encode(m, 1, se)); gr::write_file(tpath, gr::encode(tm, 1, se));
  outdir = dir + "/out"; mkdir(outdir.c_str(), 0755);
  uint32_t src = (uint32_t)wl_range(0, m.n - 1);
  char b1[32], b2[32]; snprintf(b1, sizeof b1, "-startNode=%u", src); snprintf(b2, sizeof b2, "-t=%d", threads_per_host);
  args = {appn[APP], path, std::string("-partition=") + pols[policy], b2, "-runs=1", "-output", "-outputLocation=" + outdir, std::string("-exec=") + (async ? "Async" : "Sync")};
  if (APP <= 4) args.push_back(b1);
  unsigned kcore = (unsigned)wl_range(1, 5);
  if (APP >= 7) args.push_back("-kcore=" + std::to_string(kcore));
  if (symmetric) args.push_back("-symmetricGraph"); else args.push_back("-graphTranspose=" + tpath);
  { std::string c; for (auto& a : args) c += a + " "; vsim_note("cmdline", "%s", c.c_str()); }
  vsim_note("plan", "nodes=%u edges=%zu hosts=%d threads=%d policy=%s", m.n, m.edges.size(), nhosts, threads_per_host, pols[policy]);
  int bad = vsim_world(nhosts, hostmain);
  if (bad) vsim_fail("c20.exit", "%s: a host returned a non-zero status", appn[APP]);
  // ---- collect the masters' results of every host ----
  std::map<uint64_t, uint64_t> got;
  for (int h = 0; h < nhosts; h++) {
    char fn[64]; snprintf(fn, sizeof fn, "/%08d", h);
    auto bytes = gr::read_file(outdir + fn);
    std::istringstream t(std::string(bytes.begin(), bytes.end())); uint64_t id, v;
    while (t >> id >> v) { if (got.count(id)) vsim_fail("c20.output", "%s: node %lu is reported by two hosts", appn[APP], (unsigned long)id); got[id] = v; }
  }
  if (got.size() != m.n) vsim_fail("c20.output", "%s: the hosts report %zu of %u nodes", appn[APP], got.size(), m.n);
  // ---- reference ----
  if (APP <= 4) {
    const uint64_t INF = APP <= 2 ? 1073741823ull : 1073741823ull;   // infinity = max/4 of uint32 in both applications
    std::vector<uint64_t> dist(m.n, ~0ull);
    std::vector<std::vector<std::pair<uint32_t, uint64_t>>> adj(m.n);
    for (auto& e : m.edges) adj[e.src].push_back({e.dst, weighted ? e.data : 1});
    std::priority_queue<std::pair<uint64_t, uint32_t>, std::vector<std::pair<uint64_t, uint32_t>>, std::greater<>> pq; dist[src] = 0; pq.push({0, src});
    while (!pq.empty()) { auto [d, u] = pq.top(); pq.pop(); if (d > dist[u]) continue; for (auto& [v, w] : adj[u]) if (d + w < dist[v]) { dist[v] = d + w; pq.push({dist[v], v}); } }
    for (uint32_t i = 0; i < m.n; i++) {
      uint64_t g = got[i];
      bool ok = dist[i] == ~0ull ? g >= INF : g == dist[i];
      if (!ok) vsim_fail("c20.result", "%s from node %u (%u nodes, %zu edges, %d hosts x %d threads, %s, %s): node %u has distance %lu, reference %s%lu", appn[APP], src, m.n, m.edges.size(), nhosts, threads_per_host, pols[policy], async ? "async" : "sync", i, (unsigned long)g, dist[i] == ~0ull ? "unreachable " : "", (unsigned long)(dist[i] == ~0ull ? 0 : dist[i]));
    }
  } else if (APP >= 7) {
    // k-core by peeling: a node survives iff it keeps at least k neighbours among the survivors (simple symmetric graph)
    std::vector<std::vector<uint32_t>> adj(m.n); for (auto& e : m.edges) adj[e.src].push_back(e.dst);
    std::vector<int> deg(m.n), alive(m.n, 1); for (uint32_t i = 0; i < m.n; i++) deg[i] = (int)adj[i].size();
    std::vector<uint32_t> q; for (uint32_t i = 0; i < m.n; i++) if (deg[i] < (int)kcore) { alive[i] = 0; q.push_back(i); }
    while (!q.empty()) { uint32_t u = q.back(); q.pop_back(); for (uint32_t v : adj[u]) if (alive[v] && --deg[v] < (int)kcore) { alive[v] = 0; q.push_back(v); } }
    for (uint32_t i = 0; i < m.n; i++) if ((got[i] != 0) != (alive[i] != 0))
      vsim_fail("c20.result", "%s -kcore=%u (%u nodes, %zu edges, %d hosts x %d threads, %s, %s): node %u is reported %s the %u-core, peeling says it is %s", appn[APP], kcore, m.n, m.edges.size(), nhosts, threads_per_host, pols[policy], async ? "async" : "sync", i, got[i] ? "in" : "out of", kcore, alive[i] ? "in" : "out");
  } else {
    std::vector<uint32_t> par(m.n); std::iota(par.begin(), par.end(), 0);
    std::function<uint32_t(uint32_t)> find = [&](uint32_t x) { while (par[x] != x) { par[x] = par[par[x]]; x = par[x]; } return x; };
    for (auto& e : m.edges) { uint32_t a = find(e.src), b = find(e.dst); if (a != b) par[std::max(a, b)] = std::min(a, b); }
    for (uint32_t i = 0; i < m.n; i++) {
      uint32_t want = find(i);   // the component's smallest id
      if (got[i] != want) vsim_fail("c20.result", "%s (%u nodes, %zu edges, %d hosts x %d threads, %s, %s): node %u is labelled %lu, its component's smallest id is %u", appn[APP], m.n, m.edges.size(), nhosts, threads_per_host, pols[policy], async ? "async" : "sync", i, (unsigned long)got[i], want);
    }
  }
  vsim_probe("dist_app_runs"); vsim_probe_add("hosts", (uint64_t)nhosts);
  return 0;
}
