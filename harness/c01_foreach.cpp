// C01 / C02 / C08 / C06(e): for_each over every shipped worklist, with and without
// conflict detection.  Compiled four times (-DWLSET=0..3) to keep translation units small.
//   param "focus": 0 = conservation mix, 2 = isolation (overlapping neighbourhoods, >= 2 threads)
#include "loops.h"
#include "galois/worklists/WorkList.h"

#ifndef WLSET
#define WLSET 0
#endif
namespace W = galois::worklists;
using lp::run_loop;

struct Entry { const char* name; void (*fn)(const char*, int focus); };

#define E(NAME, ORDER, ...) {NAME " cd=1", [](const char* n, int f) { run_loop<__VA_ARGS__, true, false, 0>(n, ORDER, f); }}, \
                            {NAME " cd=0", [](const char* n, int f) { run_loop<__VA_ARGS__, false, false, 0>(n, ORDER, f); }}
#define EX(NAME, ORDER, CD, PIA, RANGE, ...) {NAME, [](const char* n, int f) { run_loop<__VA_ARGS__, CD, PIA, RANGE>(n, ORDER, f); }}

#if WLSET == 0
using C1 = W::ChunkFIFO<1>; using C2 = W::ChunkLIFO<2>; using C8 = W::ChunkFIFO<8>;
static Entry entries[] = {
  E("FIFO", 0, W::FIFO<>), E("GFIFO", 0, W::GFIFO<>), E("LIFO", 0, W::LIFO<>), E("GLIFO", 0, W::GLIFO<>),
  E("ChunkFIFO<1>", 0, C1), E("ChunkLIFO<2>", 0, C2), E("ChunkFIFO<8>", 0, C8),
  EX("ChunkFIFO<1> cd=1 pia", 0, true, true, 0, C1), EX("ChunkLIFO<2> cd=0 pia range=counting", 0, false, true, 1, C2),
  EX("ChunkFIFO<8> cd=1 range=bag", 0, true, false, 2, C8),
};
#elif WLSET == 1
using P1 = W::PerSocketChunkFIFO<1>; using P64 = W::PerSocketChunkFIFO<64>; using PL2 = W::PerSocketChunkLIFO<2>; using PB2 = W::PerSocketChunkBag<2>;
using T1 = W::PerThreadChunkFIFO<1>; using T8 = W::PerThreadChunkLIFO<8>;
static Entry entries[] = {
  E("PerSocketChunkFIFO<1>", 0, P1), E("PerSocketChunkFIFO<64>", 0, P64), E("PerSocketChunkLIFO<2>", 0, PL2), E("PerSocketChunkBag<2>", 0, PB2),
  E("PerThreadChunkFIFO<1>", 0, T1), E("PerThreadChunkLIFO<8>", 0, T8),
  EX("PerSocketChunkFIFO<1> cd=1 pia range=bag", 0, true, true, 2, P1), EX("PerSocketChunkLIFO<2> cd=1 range=counting", 0, true, false, 1, PL2),
  EX("PerThreadChunkFIFO<1> cd=0 range=bag", 0, false, false, 2, T1),
};
#elif WLSET == 2
using LQ1 = W::LocalQueue<W::PerSocketChunkFIFO<2>, W::GFIFO<>>; using LQ2 = W::LocalQueue<W::ChunkLIFO<1>, W::LIFO<>>;
using OC = W::OwnerComputes<lp::OwnerFn, W::ChunkLIFO<2>>;
using SI0 = W::StableIterator<false>; using SI1 = W::StableIterator<true, W::PerSocketChunkFIFO<2>>;
using OL = W::OrderedList<lp::PrioLess>;
using AO = W::AdaptiveOrderedByIntegerMetric<lp::IndexerInt, W::PerSocketChunkFIFO<2>>;
static Entry entries[] = {
  E("LocalQueue<PerSocketChunkFIFO<2>,GFIFO>", 0, LQ1), E("LocalQueue<ChunkLIFO<1>,LIFO>", 0, LQ2),
  E("OwnerComputes<ChunkLIFO<2>>", 0, OC), E("StableIterator<false>", 0, SI0), E("StableIterator<true>", 0, SI1),
  E("OrderedList", 0, OL), E("AdaptiveOBIM", 0, AO),
  EX("StableIterator<true> cd=1 range=counting", 0, true, false, 1, SI1),
};
#else
using BS = W::BulkSynchronous<>; using BS1 = W::BulkSynchronous<W::PerSocketChunkLIFO<1>>;
using OB = W::OrderedByIntegerMetric<lp::Indexer, W::PerSocketChunkFIFO<2>>;
using OBnb = OB::with_back_scan_prevention<false>::type;
using OBp1 = OB::with_block_period<1>::type;
using OBp4 = OB::with_block_period<4>::type;
using OBbar = OB::with_barrier<true>::type;
using OBbard = OBbar::with_descending<true>::type;
using OBbarm = OBbar::with_monotonic<true>::type;
using OBd = OB::with_descending<true>::type;
static Entry entries[] = {
  E("BulkSynchronous", lp::ORD_BSP, BS), E("BulkSynchronous<PerSocketChunkLIFO<1>>", lp::ORD_BSP, BS1),
  E("OBIM", 0, OB), E("OBIM bsp=0", 0, OBnb), E("OBIM period=1", 0, OBp1), E("OBIM period=4", 0, OBp4), E("OBIM descending", 0, OBd),
  E("OBIM barrier", lp::ORD_PRIO_ASC, OBbar), E("OBIM barrier descending", lp::ORD_PRIO_DESC, OBbard), E("OBIM barrier monotonic", lp::ORD_PRIO_ASC_STRICT, OBbarm),
};
#endif

int main() {
  int cap = tier() ? 16 : 8;
  int maxT = (int)vsim_param("maxthreads", 1, cap);
  Machine m = draw_machine(maxT);
  constexpr int NE = sizeof(entries) / sizeof(entries[0]);
  int e = (int)vsim_param("entry", 0, NE - 1);
  int focus = (int)vsim_param_fixed("focus", 0);
  vsim_enable_fault(VF_CAS_WEAK, 0.005, 0.1);
  vsim_enable_fault(VF_PLAIN_PREEMPT, 0.02, 0.6);   // plain shared data of the library (behind locks, in shared helper state) becomes preemptible
  vsim_enable_fault(VF_COND_SPURIOUS, 0.02, 0.2);
  vsim_set_budget(tier() ? 30000000 : 8000000);
  galois::SharedMemSys G;
  entries[e].fn(entries[e].name, focus);
  return 0;
}
