// C10 — concurrent morph-graph mutation is serialisable and structurally consistent.
// Every mutation item is cautious at the level of the whole operator: it first acquires all nodes
// it touches, then calls the mutators.  Oracle: (1) serial replay of the commit log on a fresh
// instance of the same graph type -> identical structural dump; (2) structural invariants through
// the public API; (3) results observed by find/contains items agree with the replay.
#include "hcommon.h"
#include "galois/Galois.h"
#include "galois/graphs/Graph.h"
#include "galois/runtime/Context.h"
#include <algorithm>
#include <map>
#include <set>

enum Kind { ADD_EDGE, ADD_MULTI, REMOVE_EDGE, FIND_EDGE, UPD_NODE, UPD_EDGE, SORT_EDGES, REMOVE_NODE, ADD_NODE, UPD_NBRS, NKIND };
static const char* kind_names[] = {"addEdge", "addMultiEdge", "removeEdge", "findEdge", "getData-update", "getEdgeData-update", "sortEdgesByDst", "removeNode", "addNode", "out_edges-update-neighbours"};
struct Mut { int kind, a, b, v; int observed; uint64_t seq; int commits; int yields; int nolock; };
static std::vector<Mut> muts;
static uint64_t commit_counter;   // exact commit order (vsim_step() only advances at decision points)
static std::vector<galois::runtime::Lockable> hlocks;   // harness locks for the no-lockable flavour
struct Dump {
  std::vector<int> active; std::vector<long> data;
  std::vector<std::multiset<std::pair<int, int>>> out, in;
  bool operator==(const Dump& o) const { return active == o.active && data == o.data && out == o.out && in == o.in; }
};

template <class G, bool NOLOCK, bool HASIN, bool UNDIR, bool SORTED>
struct Run {
  using GN = typename G::GraphNode;
  G g; std::vector<GN> nodes; int nn, nspare;

  void prebuild(int n, int spare, const std::vector<std::array<int, 3>>& init_edges) {
    nn = n; nspare = spare;
    for (int i = 0; i < n + spare; i++) { GN x = g.createNode(i * 100); nodes.push_back(x); if (i < n) g.addNode(x); }
    for (auto& e : init_edges) { auto it = g.addMultiEdge(nodes[e[0]], nodes[e[1]], galois::MethodFlag::WRITE, e[2]); (void)it; }
  }
  void lock_node(int i) {
    if (NOLOCK) galois::runtime::acquire(&hlocks[i], galois::MethodFlag::WRITE);
    else g.getData(nodes[i], galois::MethodFlag::WRITE);
  }
  // the mutation itself; flags are WRITE (default conflict flags) unless the flavour has no lockables
  int apply(const Mut& m) {
    constexpr galois::MethodFlag F = NOLOCK ? galois::MethodFlag::UNPROTECTED : galois::MethodFlag::WRITE;
    GN a = nodes[m.a], b = nodes[m.b];
    switch (m.kind) {
    case ADD_EDGE: { if (!g.containsNode(a, F) || !g.containsNode(b, F)) return -2; auto it = g.addEdge(a, b, F); if (it != g.edge_end(a, F)) { g.getEdgeData(it) = m.v; return 1; } return 0; }
    case ADD_MULTI: { if (!g.containsNode(a, F) || !g.containsNode(b, F)) return -2; auto it = g.addMultiEdge(a, b, F, m.v); return it != g.edge_end(a, F) ? 1 : 0; }
    case REMOVE_EDGE: { if (!g.containsNode(a, F)) return -2; auto it = g.findEdge(a, b, F); if (it == g.edge_end(a, F)) return 0; int d = g.getEdgeData(it); g.removeEdge(a, it, F); return 1000 + d; }
    case FIND_EDGE: { if (!g.containsNode(a, F)) return -2; auto it = SORTED && (m.v & 1) ? g.findEdgeSortedByDst(a, b, F) : g.findEdge(a, b, F); if (it == g.edge_end(a, F)) return 0; return 1000 + g.getEdgeData(it); }
    case UPD_NODE: { if (!g.containsNode(a, F)) return -2; auto& d = g.getData(a, F); d = d * 31 + m.v; return 1; }
    case UPD_EDGE: { if (!g.containsNode(a, F)) return -2; auto it = g.findEdge(a, b, F); if (it == g.edge_end(a, F)) return 0; auto& d = g.getEdgeData(it); d = d * 7 + m.v; return 1; }
    case SORT_EDGES: { if (!g.containsNode(a, F)) return -2; if constexpr (!NOLOCK) g.sortEdgesByDst(a, F); /* does not compile for HasNoLockable graphs (unqualified acquire) */ return 1; }
    case REMOVE_NODE: { if (!g.containsNode(a, F)) return -2; g.removeNode(a, F); return 1; }
    case UPD_NBRS: {
      // neighbourhood operator through the out_edges() range adaptor: the adaptor acquires the node and its out-neighbours,
      // afterwards the neighbours are updated without further protection (non-commutative, with a yield inside the update)
      if (!g.containsNode(a, F)) return -2;
      std::vector<GN> ns; for (auto e : g.out_edges(a, F)) ns.push_back(g.getEdgeDst(e));
      for (GN d : ns) { auto& x = g.getData(d, galois::MethodFlag::UNPROTECTED); long old = x; if (m.yields) vsim_yield(); x = old * 31 + m.v; }
      return (int)ns.size(); }
    default: { g.addNode(a, F); return 1; }
    }
  }
  Dump dump() {
    Dump d; int tot = nn + nspare;
    d.active.resize(tot); d.data.resize(tot); d.out.resize(tot); d.in.resize(tot);
    std::map<GN, int> idx; for (int i = 0; i < tot; i++) idx[nodes[i]] = i;
    std::map<int, int> seen;
    for (GN n : g) { if (!idx.count(n)) vsim_fail("c10.iteration", "node iteration yields a node the harness never created"); seen[idx[n]]++; }
    for (int i = 0; i < tot; i++) {
      d.active[i] = g.containsNode(nodes[i], galois::MethodFlag::UNPROTECTED);
      if (seen[i] != (d.active[i] ? 1 : 0)) vsim_fail("c10.iteration", "node %d (active=%d) is yielded %d times by node iteration", i, d.active[i], seen[i]);
      if (!d.active[i]) continue;
      d.data[i] = g.getData(nodes[i], galois::MethodFlag::UNPROTECTED);
      GN prev = nullptr;
      for (auto e : g.edges(nodes[i], galois::MethodFlag::UNPROTECTED)) {
        GN dst = g.getEdgeDst(e);
        if (!g.containsNode(dst, galois::MethodFlag::UNPROTECTED)) vsim_fail("c10.dangling", "edge %d -> %d refers to a removed node", i, idx[dst]);
        d.out[i].insert({idx[dst], g.getEdgeData(e)});
        if (SORTED && prev && dst < prev) vsim_fail("c10.sorted", "sorted-neighbour graph: edges of node %d are not sorted by destination", i);
        prev = dst;
      }
      if constexpr (HASIN) for (auto e : g.in_edges(nodes[i], galois::MethodFlag::UNPROTECTED)) { GN src = g.getEdgeDst(e); d.in[i].insert({idx[src], g.getEdgeData(e)}); }
    }
    return d;
  }
  void invariants(const Dump& d, const char* flavour) {
    int tot = nn + nspare;
    if (UNDIR) for (int i = 0; i < tot; i++) for (auto& e : d.out[i]) {
      if (e.first == i) continue;
      if (d.out[e.first].count({i, e.second}) != d.out[i].count(e)) vsim_fail("c10.symmetry", "%s: undirected edge %d-%d (data %d) has no matching reverse entry", flavour, i, e.first, e.second);
    }
    if (HASIN && !UNDIR) {
      for (int i = 0; i < tot; i++) for (auto& e : d.out[i]) if (d.in[e.first].count({i, e.second}) != d.out[i].count(e)) vsim_fail("c10.in-out", "%s: out-edge %d->%d (data %d) has no matching in-edge entry", flavour, i, e.first, e.second);
      for (int i = 0; i < tot; i++) for (auto& e : d.in[i]) if (d.active[e.first] && d.out[e.first].count({i, e.second}) != d.in[i].count(e)) vsim_fail("c10.in-out", "%s: in-edge %d<-%d (data %d) has no matching out-edge", flavour, i, e.first, e.second);
    }
    // shared edge-data cell: write through one side, read through the other
    if (UNDIR || HASIN) {
      for (int i = 0; i < tot && i < 6; i++) if (d.active[i]) for (auto e : g.edges(nodes[i], galois::MethodFlag::UNPROTECTED)) {
        GN dst = g.getEdgeDst(e); if (dst == nodes[i]) continue;
        int old = g.getEdgeData(e); g.getEdgeData(e) = 987654;
        bool found = false;
        if constexpr (UNDIR) { for (auto r : g.edges(dst, galois::MethodFlag::UNPROTECTED)) if (g.getEdgeDst(r) == nodes[i] && g.getEdgeData(r) == 987654) found = true; }
        else { for (auto r : g.in_edges(dst, galois::MethodFlag::UNPROTECTED)) if (g.getEdgeDst(r) == nodes[i] && g.getEdgeData(r) == 987654) found = true; }
        g.getEdgeData(e) = old;
        if (!found) vsim_fail("c10.shared-data", "%s: edge data written through node %d is not seen through the other endpoint", flavour, i);
      }
    }
  }
};

template <class G, bool NOLOCK, bool HASIN, bool UNDIR, bool SORTED>
static void scenario(const char* flavour) {
  int hw = (int)galois::substrate::getThreadPool().getMaxThreads();
  int nthr = (int)wl_range(1, hw);
  galois::setActiveThreads(nthr); nthr = (int)galois::getActiveThreads();
  int n = (int)wl_range(3, tier() ? 40 : 14), spare = (int)wl_range(0, 4);
  std::vector<std::array<int, 3>> init;
  for (int i = 0; i < (int)wl_range(0, 2 * n); i++) init.push_back({(int)wl_range(0, n - 1), (int)wl_range(0, n - 1), (int)wl_range(1, 99)});
  int nm = (int)wl_range(1, tier() ? 150 : 50);
  muts.clear(); int next_spare = 0; std::set<int> removed;
  int hot = (int)wl_range(2, n);
  // swarm: a third of the runs race lookups against node/edge removal on a small dense graph
  bool lookup_vs_removal = wl_chance(33);
  static const int LVR[] = {FIND_EDGE, FIND_EDGE, FIND_EDGE, FIND_EDGE, REMOVE_NODE, REMOVE_NODE, ADD_EDGE, ADD_MULTI, REMOVE_EDGE, UPD_EDGE};
  if (lookup_vs_removal) {
    // clusters "lookups of x->b around removeNode(b)" placed next to each other in the initial range, so that they are in
    // flight together; every node is removed at most once (re-adding a removed node resurrects other nodes' entries)
    n = (int)wl_range(5, tier() ? 24 : 14); hot = n; init.clear();
    for (int i = 0; i < 4 * n; i++) init.push_back({(int)wl_range(0, n - 1), (int)wl_range(0, n - 1), (int)wl_range(1, 99)});
    std::vector<int> perm(n); for (int i = 0; i < n; i++) perm[i] = i;
    for (int i = n - 1; i > 0; i--) std::swap(perm[i], perm[wl_range(0, i)]);
    int victims = (int)wl_range(1, n - 2);
    auto rnd_mut = [&](int kind, int a, int b) { Mut m{}; m.kind = kind; m.a = a; m.b = b; m.v = (int)wl_range(1, 99); m.yields = wl_chance(40) ? (int)wl_range(1, 3) : 0; m.nolock = (!NOLOCK && kind == FIND_EDGE && wl_chance(75)) ? 1 : 0; muts.push_back(m); };
    for (int v = 0; v < victims; v++) {
      int b = perm[v];
      std::vector<int> srcs; for (auto& e : init) if (e[1] == b && e[0] != b) srcs.push_back(e[0]);
      auto src = [&]() { return (!srcs.empty() && wl_chance(80)) ? srcs[wl_range(0, (long)srcs.size() - 1)] : (int)wl_range(0, n - 1); };
      for (int k = (int)wl_range(1, 3); k > 0; k--) rnd_mut(FIND_EDGE, src(), b);
      if (wl_chance(30)) rnd_mut(LVR[wl_range(6, 9)], (int)wl_range(0, n - 1), (int)wl_range(0, n - 1));
      rnd_mut(REMOVE_NODE, b, (int)wl_range(0, n - 1));
      for (int k = (int)wl_range(0, 2); k > 0; k--) rnd_mut(FIND_EDGE, src(), b);
    }
    nm = (int)muts.size();
  }
  for (int i = 0; i < nm && !lookup_vs_removal; i++) {
    Mut m{}; m.kind = (int)wl_range(0, NKIND - 1);
    m.a = (int)wl_range(0, wl_chance(50) ? hot - 1 : n - 1); m.b = (int)wl_range(0, wl_chance(50) ? hot - 1 : n - 1); m.v = (int)wl_range(1, 99); m.yields = wl_chance(40) ? (int)wl_range(1, 3) : 0;
    if (m.kind == REMOVE_NODE && (wl_chance(60) || removed.size() + 2 >= (size_t)n)) m.kind = UPD_NODE;
    if (m.kind == REMOVE_NODE) removed.insert(m.a);
    if (m.kind == UPD_NBRS && NOLOCK) m.kind = UPD_NODE;
    m.nolock = (!NOLOCK && ((m.kind == FIND_EDGE && wl_chance(60)) || m.kind == UPD_NBRS)) ? 1 : 0;   // the neighbourhood operator always relies on the adaptor's own acquisition
    if (m.kind == ADD_NODE) { if (next_spare < spare) { m.a = n + next_spare++; m.b = m.a; } else m.kind = ADD_EDGE; }   // a node is added at most once, removed nodes are never re-added
    muts.push_back(m);
  }
  hlocks.clear(); hlocks.resize(n + spare);
  vsim_note("workload", "flavour=%s nodes=%d spare=%d init_edges=%zu mutations=%d threads=%d", flavour, n, spare, init.size(), nm, nthr);
  vsim_set_budget(600000 + 20000ull * nm);
  { std::string ms; for (auto& e : init) { char b[48]; snprintf(b, sizeof b, "init(%d,%d,%d) ", e[0], e[1], e[2]); if (ms.size() < 1700) ms += b; }
    for (auto& m : muts) { char b[64]; snprintf(b, sizeof b, "%s(%d,%d,%d) ", kind_names[m.kind], m.a, m.b, m.v); if (ms.size() < 1700) ms += b; } vsim_note("mutations", "%s", ms.c_str()); }
  Run<G, NOLOCK, HASIN, UNDIR, SORTED> conc;
  conc.prebuild(n, spare, init);
  std::vector<int> idxs(nm); for (int i = 0; i < nm; i++) idxs[i] = i;
  galois::for_each(galois::iterate(idxs), [&](int i, auto& ctx) {
    Mut& m = muts[i];
    if (m.nolock) {
      // read-only lookup that relies on the library's own acquisition protocol (no harness pre-locking): it may abort inside
      // the call; it serialises after everything whose effects it saw, so its commit position is taken when it returns
      for (int y = 0; y < m.yields; y++) vsim_yield();
      int r = conc.apply(m);
      if (obs_add(&m.commits, 1) != 0) vsim_fail("c01.duplicate", "mutation %d committed twice", i);
      m.seq = obs_add(&commit_counter, (uint64_t)1);
      m.observed = r;
      return;
    }
    conc.lock_node(m.a);
    for (int y = 0; y < m.yields; y++) vsim_yield();
    conc.lock_node(m.b);
    // ---- all nodes acquired: the item will commit ----
    if (obs_add(&m.commits, 1) != 0) vsim_fail("c01.duplicate", "mutation %d committed twice", i);
    m.seq = obs_add(&commit_counter, (uint64_t)1);
    m.observed = conc.apply(m);
  }, galois::wl<galois::worklists::PerSocketChunkFIFO<2>>(), galois::no_pushes());
  for (int i = 0; i < nm; i++) if (muts[i].commits != 1) vsim_fail("c01.conservation", "mutation %d committed %d times", i, muts[i].commits);
  Dump dc = conc.dump();
  conc.invariants(dc, flavour);
  // serial replay in commit order on a fresh graph of the same type
  std::vector<int> order(nm); for (int i = 0; i < nm; i++) order[i] = i;
  std::sort(order.begin(), order.end(), [&](int x, int y) { return muts[x].seq < muts[y].seq; });
  Run<G, NOLOCK, HASIN, UNDIR, SORTED> ser;
  ser.prebuild(n, spare, init);
  for (int i : order) {
    int r = ser.apply(muts[i]);
    if (r != muts[i].observed) vsim_fail("c10.observed-result", "%s: %s(%d,%d) returned %d in the concurrent run but %d in the serial replay at the same commit position", flavour, kind_names[muts[i].kind], muts[i].a, muts[i].b, muts[i].observed, r);
  }
  Dump ds = ser.dump();
  if (!(dc == ds)) {
    int tot = n + spare; int bad = -1; const char* what = "";
    for (int i = 0; i < tot && bad < 0; i++) { if (dc.active[i] != ds.active[i]) { bad = i; what = "active flag"; } else if (dc.data[i] != ds.data[i]) { bad = i; what = "node data"; } else if (dc.out[i] != ds.out[i]) { bad = i; what = "out-edges"; } else if (dc.in[i] != ds.in[i]) { bad = i; what = "in-edges"; } }
    vsim_fail("c10.serializability", "%s: graph after the concurrent loop differs from the serial replay of its commit log at node %d (%s): %zu vs %zu out-edges", flavour, bad, what, bad >= 0 ? dc.out[bad].size() : 0, bad >= 0 ? ds.out[bad].size() : 0);
  }
  vsim_probe_add("mutations", nm);
}

int main() {
  int cap = tier() ? 16 : 8;
  int maxT = (int)vsim_param("maxthreads", 1, cap);
  Machine m = draw_machine(maxT);
  int fl = (int)vsim_param("flavour", 0, 4);
  static const char* fn[] = {"directed", "directed-in/out", "undirected", "undirected-sorted", "directed-no-lockable"};
  vsim_note("component", "morph=%s", fn[fl]);
  vsim_enable_fault(VF_CAS_WEAK, 0.005, 0.1);
  vsim_enable_fault(VF_PLAIN_PREEMPT, 0.02, 0.6);   // plain shared data of the library (behind locks, in shared helper state) becomes preemptible
  vsim_plain_preempt_window(1);   // operators here keep no shared non-atomic bookkeeping of their own
  galois::SharedMemSys Gs;
  using namespace galois::graphs;
  switch (fl) {
  case 0: scenario<MorphGraph<long, int, true, false>, false, false, false, false>(fn[fl]); break;
  case 1: scenario<MorphGraph<long, int, true, true>, false, true, false, false>(fn[fl]); break;
  case 2: scenario<MorphGraph<long, int, false>, false, false, true, false>(fn[fl]); break;
  case 3: scenario<MorphGraph<long, int, false, false, false, true>, false, false, true, true>(fn[fl]); break;
  default: scenario<MorphGraph<long, int, true, false, true>, true, false, false, false>(fn[fl]); break;
  }
  return 0;
}
