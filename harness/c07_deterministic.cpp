// C07 — deterministic scheduling: per-object commit sequences, final state and created work are a
// function of the loop's input alone.  One simulated run executes the SAME workload several times
// with different thread counts (always including 1) under whatever interleavings the scheduler
// draws, and requires bit-identical recordings; C01's ledger and C02's stamps hold in every execution.
#include "loops.h"
#include "galois/worklists/WorkList.h"

using namespace lp;
struct LS { long v; explicit LS(long x) : v(x) {} };
static std::vector<std::vector<int>> objseq;   // per object: committing item ids in order
static bool use_local_state;

template <class Ctx>
static void det_body(int id, Ctx& ctx) {
  Workload& w = *G;
  Item& it = w.items[id];
  if (!it.in_closure) vsim_fail("c01.not-work", "item %d ran although nothing pushed it", id);
  bool first = ctx.isFirstPass();
  if (use_local_state) {
    if (first) ctx.template createLocalState<LS>((long)id * 3 + 1);
    else if (ctx.template getLocalState<LS>()->v != (long)id * 3 + 1) vsim_fail("c07.local-state", "item %d: local state created in the inspect phase is not the one seen in the commit phase", id);
  }
  Obj* owned[8]; unsigned char oflag[8]; int nown = 0;
  for (const Step& s : it.prog) {
    if (s.kind == 0) {
      Obj* o = &w.objs[s.arg & 15]; int f = s.arg >> 4;
      galois::runtime::acquire(o, f == 0 ? galois::MethodFlag::WRITE : f == 1 ? galois::MethodFlag::READ : galois::MethodFlag::UNPROTECTED);
      if (f != 2) { bool dup = false; for (int k = 0; k < nown; k++) if (owned[k] == o) { dup = true; if (f == 0) oflag[k] = 0; } if (!dup && nown < 8) { owned[nown] = o; oflag[nown++] = (unsigned char)f; } }
    } else if (s.kind == 2) { for (int y = 0; y < s.arg; y++) vsim_yield(); }
  }
  ctx.cautiousPoint();   // inspect phase ends here
  // ---- commit phase ----
  int c = obs_add(&it.commits, 1);
  if (c != 0) vsim_fail("c01.duplicate", "item %d commits a second time under the deterministic scheduler", id);
  if (it.parent >= 0 && !obs_load(&w.items[it.parent].commits)) vsim_fail("c01.push-of-uncommitted", "item %d runs before its pusher %d committed", id, it.parent);
  obs_add(&w.committed, 1L);
  long token = (long)id * 16 + 1;
  for (int k = 0; k < nown; k++) {
    if (*owned[k]->stamp != 0) vsim_fail("c02.double-owner", "item %d owns object %d but finds stamp %ld", id, (int)(owned[k] - &w.objs[0]), *owned[k]->stamp);
    if (oflag[k] == 0) *owned[k]->stamp = token;
  }
  if (nown) vsim_yield();
  for (int k = 0; k < nown; k++) {
    if (oflag[k] == 0) {
      if (*owned[k]->stamp != token) vsim_fail("c02.double-owner", "item %d: stamp on object %d changed under its owner", id, (int)(owned[k] - &w.objs[0]));
      *owned[k]->state = *owned[k]->state * 31 + id + 1;    // non-commutative
      *owned[k]->stamp = 0;
      objseq[owned[k] - &w.objs[0]].push_back(id);
    }
  }
  for (const Step& s : it.tail) { if (s.kind == 1) ctx.push(it.children[s.arg]); else for (int y = 0; y < s.arg; y++) vsim_yield(); }
}

template <int VARIANT>
static void run_variant(long break_at) {
  Workload& w = *G;
  auto op = [](int id, auto& ctx) { det_body(id, ctx); };
  auto idfn = [](const int& id) -> uint32_t { return (uint32_t)id; };
  auto brk = [&w, break_at]() -> bool { return obs_load(&w.committed) >= break_at; };
  using DWL = galois::worklists::Deterministic<>;
  if constexpr (VARIANT == 0) galois::for_each(galois::iterate(w.roots), op, galois::wl<DWL>());
  else if constexpr (VARIANT == 1) galois::for_each(galois::iterate(w.roots), op, galois::wl<DWL>(), galois::det_id<decltype(idfn)>(idfn));
  else if constexpr (VARIANT == 2) galois::for_each(galois::iterate(w.roots), op, galois::wl<DWL>(), galois::local_state<LS>());
  else if constexpr (VARIANT == 3) galois::for_each(galois::iterate(w.roots), op, galois::wl<DWL>(), galois::det_id<decltype(idfn)>(idfn), galois::local_state<LS>(), galois::per_iter_alloc());
  else if constexpr (VARIANT == 4) galois::for_each(galois::iterate(w.roots), op, galois::wl<DWL>(), galois::det_parallel_break<decltype(brk)>(brk));
  else galois::for_each(galois::iterate(w.roots), op, galois::wl<DWL>(), galois::det_id<decltype(idfn)>(idfn), galois::fixed_neighborhood());
}

int main() {
  int cap = tier() ? 16 : 8;
  int maxT = (int)vsim_param("maxthreads", 2, cap);
  Machine m = draw_machine(maxT);
  int variant = (int)vsim_param("variant", 0, 5);
  int execs = (int)vsim_param("executions", 2, 3);
  static const char* vn[] = {"plain", "det_id", "local_state", "det_id+local_state+pia", "det_parallel_break", "det_id+fixed_neighborhood"};
  vsim_note("component", "deterministic:%s", vn[variant]);
  vsim_enable_fault(VF_CAS_WEAK, 0.005, 0.1);
  vsim_enable_fault(VF_PLAIN_PREEMPT, 0.02, 0.6);   // plain shared data of the library (behind locks, in shared helper state) becomes preemptible
  vsim_plain_preempt_window(1);   // the operator only touches data of objects it owns
  vsim_enable_fault(VF_COND_SPURIOUS, 0.02, 0.2);
  galois::SharedMemSys Gs;
  int hw = (int)galois::substrate::getThreadPool().getMaxThreads();
  static Workload w; G = &w;
  // windowed execution (the initial work does not fit into one window of 1280 items): 3 % of the quick runs, 25 % thorough
  bool large = wl_chance(tier() ? 25 : 3);
  if (large) execs = 2;
  generate(w, true, ORD_NONE, hw, 7, large ? (int)wl_range(1300, tier() ? 1900 : 1500) : 0);
  vsim_set_budget(600000 + 6000ull * w.items.size() * execs);
  use_local_state = variant == 2 || variant == 3;
  long break_at = variant == 4 ? wl_range(1, std::max<long>(1, w.total_closure)) : 0;
  vsim_note("workload", "items=%zu closure=%ld roots=%zu objs=%d execs=%d break_at=%ld", w.items.size(), w.total_closure, w.roots.size(), w.nobj, execs, break_at);
  std::vector<std::vector<int>> ref_seq; std::vector<long> ref_state; std::vector<int> ref_commits; int ref_threads = 0;
  for (int e = 0; e < execs; e++) {
    int n = e == 0 ? 1 : (int)wl_range(2, std::max(2, large ? std::min(hw, tier() ? 6 : 4) : hw));
    if (e == 1 && wl_chance(30) && !large) n = hw;
    galois::setActiveThreads(n); n = (int)galois::getActiveThreads();
    objseq.assign(w.nobj, {});
    for (int o = 0; o < w.nobj; o++) { *w.objs[o].state = 0; *w.objs[o].stamp = 0; }
    for (Item& it : w.items) { it.attempts = it.commits = 0; }
    w.committed = 0;
    switch (variant) { case 0: run_variant<0>(break_at); break; case 1: run_variant<1>(break_at); break; case 2: run_variant<2>(break_at); break;
                       case 3: run_variant<3>(break_at); break; case 4: run_variant<4>(break_at); break; default: run_variant<5>(break_at); }
    // C01 ledger (no break) and C02 leftovers
    Probe pr;
    for (int o = 0; o < w.nobj; o++) { if (!pr.isFree(&w.objs[o])) vsim_fail("c02.leaked-lock", "object %d still owned after the deterministic loop", o); if (*w.objs[o].stamp) vsim_fail("c02.stamp-left", "stamp left on object %d", o); }
    if (variant != 4) { long lost = 0; int fl = -1; for (Item& it : w.items) if (it.in_closure && it.commits != 1) { lost++; if (fl < 0) fl = it.id; } if (lost) vsim_fail("c01.conservation", "deterministic loop with %d threads returned with %ld of %ld items not committed exactly once (first %d)", n, lost, w.total_closure, fl); }
    std::vector<long> st(w.nobj); std::vector<int> cm(w.items.size());
    for (int o = 0; o < w.nobj; o++) st[o] = *w.objs[o].state;
    for (size_t i = 0; i < w.items.size(); i++) cm[i] = w.items[i].commits;
    if (e == 0) { ref_seq = objseq; ref_state = st; ref_commits = cm; ref_threads = n; }
    else {
      for (int o = 0; o < w.nobj; o++) if (objseq[o] != ref_seq[o]) {
        size_t k = 0; while (k < objseq[o].size() && k < ref_seq[o].size() && objseq[o][k] == ref_seq[o][k]) k++;
        vsim_fail("c07.commit-order", "object %d: commit sequence with %d threads differs from the one with %d thread(s) at position %zu (%d vs %d; lengths %zu vs %zu)", o, n, ref_threads, k,
                  k < objseq[o].size() ? objseq[o][k] : -1, k < ref_seq[o].size() ? ref_seq[o][k] : -1, objseq[o].size(), ref_seq[o].size());
      }
      if (st != ref_state) vsim_fail("c07.final-state", "final object states with %d threads differ from those with %d thread(s)", n, ref_threads);
      if (cm != ref_commits) vsim_fail("c07.work-set", "set of committed items with %d threads differs from that with %d thread(s)", n, ref_threads);
    }
    vsim_probe_add("executions", 1);
    if (w.items.size() > 1280) vsim_probe("windowed_execution");
  }
  return 0;
}
