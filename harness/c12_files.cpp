// C12 (I/O-facing half) — graph files round-trip: writer/toFile under short writes, whole and
// partial reads (FileGraph mmap, partFromFile, OfflineGraph seeks, BufferedGraph resume loops)
// under short reads, for both format versions, all data widths, odd and even edge counts.
// Oracle: the harness's independent encoder/decoder (grwriter.h) and the generator's edge list.
#include "grwriter.h"
#include "galois/Galois.h"
#include "galois/graphs/BufferedGraph.h"
#include "galois/graphs/FileGraph.h"
#include "galois/graphs/OfflineGraph.h"

using namespace galois::graphs;
static const char* sn[] = {"FileGraphWriter+toFile", "FileGraph::fromFile", "FileGraph::partFromFile", "OfflineGraph", "BufferedGraph", "OfflineGraphWriter"};

template <class T> static uint64_t rd(FileGraph& g, FileGraph::edge_iterator e) { return (uint64_t)g.getEdgeData<T>(e); }
static uint64_t edata(FileGraph& g, FileGraph::edge_iterator e, size_t se) { return se == 4 ? rd<uint32_t>(g, e) : se == 8 ? rd<uint64_t>(g, e) : 0; }

// `absolute`: whether edge iterators are expected to be global edge ids (whole-file reads); partial reads
// hand out local edge handles, for which only the count and the content are promised
static void compare_range(FileGraph& g, const gr::Model& m, size_t se, uint32_t nb, uint32_t ne, const char* what, bool absolute = true) {
  for (uint32_t n = nb; n < ne; n++) {
    uint64_t b = n ? m.end[n - 1] : 0, e = m.end[n];
    uint64_t gb = *g.edge_begin(n), ge = *g.edge_end(n);
    if ((absolute && (gb != b || ge != e)) || ge - gb != e - b) vsim_fail("c12.index", "%s: node %u owns edges [%lu,%lu), the file says [%lu,%lu)", what, n, (unsigned long)gb, (unsigned long)ge, (unsigned long)b, (unsigned long)e);
    uint64_t k = b;
    for (auto ii = g.edge_begin(n), ei = g.edge_end(n); ii != ei; ++ii, ++k) {
      uint64_t d = g.getEdgeDst(ii), v = edata(g, ii, se);
      if (d != m.edges[k].dst || (se && v != m.edges[k].data)) vsim_fail("c12.content", "%s: edge %lu of node %u reads (->%lu, data %lu), the file holds (->%u, data %lu)", what, (unsigned long)k, n, (unsigned long)d, (unsigned long)v, m.edges[k].dst, (unsigned long)m.edges[k].data);
    }
  }
}

int main() {
  int maxT = (int)vsim_param("maxthreads", 1, 4);
  Machine mc = draw_machine(maxT);
  int scen = (int)vsim_param("scenario", 0, 5);
  vsim_note("component", "io=%s", sn[scen]);
  vsim_enable_fault(VF_SHORT_WRITE, 0.2, 0.9);
  vsim_enable_fault(VF_SHORT_READ, 0.2, 0.9);
  vsim_enable_fault(VF_PLAIN_PREEMPT, 0.05, 0.6);   // only inside the window opened around the concurrent OfflineGraph readers
  vsim_set_budget(3000000);
  galois::SharedMemSys G;
  int hw = (int)galois::substrate::getThreadPool().getMaxThreads();
  int nthr = (int)wl_range(1, hw); galois::setActiveThreads(nthr);
  gr::Model m = gr::generate(tier() ? 600 : 60, false);
  for (auto& e : m.edges) e.data = (uint64_t)wl_range(0, 0x7fffffff);
  size_t se = (size_t)(4 * wl_range(0, 2));
  int version = (int)wl_range(1, 2);
  std::string path = std::string(vsim_workdir()) + "/g.gr";
  vsim_note("plan", "nodes=%u edges=%zu version=%d sizeofEdge=%zu", m.n, m.edges.size(), version, se);
  vsim_track_fd_faults(1);
  switch (scen) {
  case 0: {
    // library writer (always version 1 below 2^32 nodes) -> toFile with short writes -> bytes equal the independent encoding
    FileGraphWriter w; w.setNumNodes(m.n);
    if (se == 4) w.setNumEdges<uint32_t>(m.edges.size()); else if (se == 8) w.setNumEdges<uint64_t>(m.edges.size()); else w.setNumEdges<void>(m.edges.size());
    w.phase1();
    for (auto& e : m.edges) w.incrementDegree(e.src);
    w.phase2();
    for (auto& e : m.edges) { if (se == 4) w.addNeighbor<uint32_t>(e.src, e.dst, (uint32_t)e.data); else if (se == 8) w.addNeighbor<uint64_t>(e.src, e.dst, e.data); else w.addNeighbor(e.src, e.dst); }
    w.finish();
    w.toFile(path);
    vsim_track_fd_faults(0);
    auto got = gr::read_file(path), exp = gr::encode(m, 1, se);
    if (got != exp) { size_t k = 0; while (k < got.size() && k < exp.size() && got[k] == exp[k]) k++; vsim_fail("c12.toFile.bytes", "file written by FileGraphWriter/toFile has %zu bytes, independent encoding %zu; first difference at offset %zu", got.size(), exp.size(), k); }
    gr::Model back; int v; size_t s2; std::string why;
    if (!gr::decode(got, back, v, s2, why)) vsim_fail("c12.toFile.decode", "independent decoder rejects the written file: %s", why.c_str());
    vsim_track_fd_faults(1);
    FileGraph g; g.fromFile(path);
    if (g.size() != m.n || g.sizeEdges() != m.edges.size()) vsim_fail("c12.counts", "read back %zu nodes / %zu edges, wrote %u / %zu", (size_t)g.size(), (size_t)g.sizeEdges(), m.n, m.edges.size());
    compare_range(g, m, se, 0, m.n, "toFile -> fromFile");
    break; }
  case 1: {
    vsim_track_fd_faults(0); gr::write_file(path, gr::encode(m, version, se)); vsim_track_fd_faults(1);
    FileGraph g;
    if (wl_chance(50)) g.fromFile(path); else if (se == 4) g.fromFileInterleaved<uint32_t>(path); else if (se == 8) g.fromFileInterleaved<uint64_t>(path); else g.fromFileInterleaved<void>(path);
    if (g.size() != m.n || g.sizeEdges() != m.edges.size() || g.edgeSize() != se) vsim_fail("c12.counts", "header read as %zu nodes / %zu edges / edge size %zu, file holds %u / %zu / %zu", (size_t)g.size(), (size_t)g.sizeEdges(), (size_t)g.edgeSize(), m.n, m.edges.size(), se);
    char what[64]; snprintf(what, sizeof what, "fromFile(v%d, %zu-byte data, %s edge count)", version, se, m.edges.size() % 2 ? "odd" : "even");
    compare_range(g, m, se, 0, m.n, what);
    break; }
  case 2: {
    vsim_track_fd_faults(0); gr::write_file(path, gr::encode(m, version, se)); vsim_track_fd_faults(1);
    if (!m.n) break;
    for (int r = 0; r < 4; r++) {
      uint32_t nb = (uint32_t)wl_range(0, m.n - 1), ne = (uint32_t)wl_range(nb + 1, m.n);
      uint64_t eb = nb ? m.end[nb - 1] : 0, ee = m.end[ne - 1];
      FileGraph g;
      g.partFromFile(path, FileGraph::NodeRange(FileGraph::iterator(nb), FileGraph::iterator(ne)), FileGraph::EdgeRange(FileGraph::edge_iterator(eb), FileGraph::edge_iterator(ee)), wl_chance(30));
      char what[80]; snprintf(what, sizeof what, "partFromFile(v%d, nodes [%u,%u), %zu-byte data)", version, nb, ne, se);
      compare_range(g, m, se, nb, ne, what, false);
    }
    break; }
  case 3: {
    vsim_track_fd_faults(0); gr::write_file(path, gr::encode(m, version, se)); vsim_track_fd_faults(1);
    OfflineGraph g(path);
    if (g.size() != m.n || g.sizeEdges() != m.edges.size()) vsim_fail("c12.counts", "OfflineGraph header: %zu nodes / %zu edges, file holds %u / %zu", g.size(), g.sizeEdges(), m.n, m.edges.size());
    for (uint32_t n = 0; n < m.n; n++) {
      uint64_t k = n ? m.end[n - 1] : 0;
      if (*g.edge_begin(n) != k || *g.edge_end(n) != m.end[n]) vsim_fail("c12.index", "OfflineGraph: node %u owns [%lu,%lu), file says [%lu,%lu)", n, (unsigned long)*g.edge_begin(n), (unsigned long)*g.edge_end(n), (unsigned long)k, (unsigned long)m.end[n]);
      for (auto e : g.edges(n)) {
        uint64_t d = g.getEdgeDst(e), v = se == 4 ? g.getEdgeData<uint32_t>(e) : se == 8 ? g.getEdgeData<uint64_t>(e) : 0;
        if (d != m.edges[k].dst || (se && v != m.edges[k].data)) vsim_fail("c12.content", "OfflineGraph(v%d, %zu-byte data, %s edge count): edge %lu reads (->%lu, data %lu), file holds (->%u, data %lu)", version, se, m.edges.size() % 2 ? "odd" : "even", (unsigned long)k, (unsigned long)d, (unsigned long)v, m.edges[k].dst, (unsigned long)m.edges[k].data);
        k++;
      }
    }
    // the same object read by all threads at once (each its own nodes): the readers share one set of streams and
    // cached positions behind the object's lock, so every answer must still be the file's
    if (nthr > 1 && m.n) {
      vsim_plain_preempt_window(1);
      galois::on_each([&](unsigned tid, unsigned tot) {
        for (uint32_t n = tid; n < m.n; n += tot) {
          uint64_t k = n ? m.end[n - 1] : 0;
          for (auto e : g.edges(n)) {
            uint64_t d = g.getEdgeDst(e), v = se == 4 ? g.getEdgeData<uint32_t>(e) : se == 8 ? g.getEdgeData<uint64_t>(e) : 0;
            if (d != m.edges[k].dst || (se && v != m.edges[k].data)) vsim_fail("c12.content", "OfflineGraph read by %u threads at once (v%d, %zu-byte data): edge %lu reads (->%lu, data %lu), file holds (->%u, data %lu)", tot, version, se, (unsigned long)k, (unsigned long)d, (unsigned long)v, m.edges[k].dst, (unsigned long)m.edges[k].data);
            k++;
          }
        }
      });
      vsim_plain_preempt_window(0);
    }
    break; }
  case 4: {
    // BufferedGraph supports version 1 only (documented); preconditions as in its one client (NewGeneric.h):
    // the edge range is exactly the edges of the node range
    if (se == 8) se = 4;
    vsim_track_fd_faults(0); gr::write_file(path, gr::encode(m, 1, se)); vsim_track_fd_faults(1);
    if (!m.n) break;
    for (int r = 0; r < 4; r++) {
      uint32_t nb = (uint32_t)wl_range(0, m.n - 1), ne = (uint32_t)wl_range(nb + 1, m.n);
      if (r == 0) { nb = 0; ne = m.n; }
      uint64_t eb = nb ? m.end[nb - 1] : 0, ee = m.end[ne - 1];
      auto chk = [&](auto& g) {
        g.loadPartialGraph(path, nb, ne, eb, ee, m.n, m.edges.size());
        for (uint32_t n = nb; n < ne; n++) {
          uint64_t k = n ? m.end[n - 1] : 0;
          uint64_t gb = *g.edgeBegin(n), ge = *g.edgeEnd(n);
          if (gb != k || ge != m.end[n]) vsim_fail("c12.index", "BufferedGraph[%u,%u): node %u owns [%lu,%lu), file says [%lu,%lu)", nb, ne, n, (unsigned long)gb, (unsigned long)ge, (unsigned long)k, (unsigned long)m.end[n]);
          if (ee == eb) continue;
          for (uint64_t e = gb; e < ge; e++) {
            uint64_t d = g.edgeDestination(e), v = (uint64_t)g.edgeData(e);
            if (d != m.edges[e].dst || (se && v != m.edges[e].data)) vsim_fail("c12.content", "BufferedGraph[%u,%u) (%s edge count): edge %lu reads (->%lu, data %lu), file holds (->%u, data %lu)", nb, ne, m.edges.size() % 2 ? "odd" : "even", (unsigned long)e, (unsigned long)d, (unsigned long)v, m.edges[e].dst, (unsigned long)m.edges[e].data);
          }
        }
        g.resetAndFree();
      };
      if (se == 4) { BufferedGraph<uint32_t> g; chk(g); } else { BufferedGraph<void> g; chk(g); }
    }
    break; }
  default: {
    // OfflineGraphWriter (ofstream): float / double edge data, version per its own rule; decode with the independent decoder
    bool use32 = wl_chance(50);
    {
      OfflineGraphWriter w(path, use32, m.n, m.edges.size());
      std::deque<uint64_t> counts(m.n, 0); for (auto& e : m.edges) counts[e.src]++;
      w.setCounts(counts);
      std::vector<uint64_t> off(m.n, 0);
      for (auto& e : m.edges) { if (use32) w.setEdge(e.src, off[e.src]++, e.dst, (uint32_t)(e.data & 0xffffff)); else w.setEdge(e.src, off[e.src]++, e.dst, (uint64_t)e.data); }
    }
    vsim_track_fd_faults(0);
    auto got = gr::read_file(path);
    gr::Model back; int v; size_t s2; std::string why;
    if (!gr::decode(got, back, v, s2, why)) vsim_fail("c12.offlinewriter.decode", "independent decoder rejects the file written by OfflineGraphWriter (%u nodes, %zu edges): %s", m.n, m.edges.size(), why.c_str());
    if (back.n != m.n || back.edges.size() != m.edges.size()) vsim_fail("c12.counts", "OfflineGraphWriter wrote %u nodes / %zu edges, expected %u / %zu", back.n, back.edges.size(), m.n, m.edges.size());
    for (size_t k = 0; k < m.edges.size(); k++) {
      uint64_t want = use32 ? (m.edges[k].data & 0xffffff) : m.edges[k].data;
      if (back.edges[k].src != m.edges[k].src || back.edges[k].dst != m.edges[k].dst || back.edges[k].data != want) vsim_fail("c12.content", "OfflineGraphWriter: edge %zu decodes as (%u->%u, %lu), written (%u->%u, %lu)", k, back.edges[k].src, back.edges[k].dst, (unsigned long)back.edges[k].data, m.edges[k].src, m.edges[k].dst, (unsigned long)want);
    }
    break; }
  }
  vsim_probe_add("edges_checked", m.edges.size());
  return 0;
}
