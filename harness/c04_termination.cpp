// C04 — termination detection is sound, live (bounded fair rounds) and reusable.
// Both detectors are driven through their public API by a synthetic work-moving model that
// honours the executor's contract: work is created only while consuming work, and
// localTermination(true) is reported iff something was consumed since the last report.
#include "hcommon.h"
#include "galois/Galois.h"
#include "galois/substrate/Termination.h"
#include "galois/substrate/ThreadPool.h"
#include "galois/substrate/Barrier.h"
#include <atomic>

namespace gsb = galois::substrate;
constexpr int MAXT = 32;

struct Tree : public gsb::internal::TreeTerminationDetection<> {
  void setup(unsigned n) { init(n); }
};

static std::atomic<int> mailbox[MAXT];
static long outstanding;            // units sent - units consumed (exact: the simulator serialises)
static long spawn_budget;
static int rounds, called[MAXT], ncalled;
static int unreported[MAXT];        // consumed since last report?
static int seen_term[MAXT];
static uint64_t rng[MAXT];
static int nthreads;
static int max_rounds_seen;
static bool pingpong;
static long consumed_total, break_after;   // a loop may be abandoned (parallel_break / breakLoop): every thread simply leaves
static int broken;

static uint64_t trand(int t) { uint64_t& r = rng[t]; r ^= r << 13; r ^= r >> 7; r ^= r << 17; return r * 0x2545F4914F6CDD1Dull; }

static void note_idle_call(int tid) {
  // fair-round accounting, only meaningful while nothing is outstanding
  if (obs_load(&outstanding) != 0) return;
  if (!called[tid]) { called[tid] = 1; ncalled++; }
  if (ncalled == nthreads) { rounds++; ncalled = 0; for (int i = 0; i < nthreads; i++) called[i] = 0; if (rounds > max_rounds_seen) max_rounds_seen = rounds; }
}

static void worker(gsb::TerminationDetection& term, gsb::Barrier& bar, int n, int spawn_pct, int batch, const char* which, int bound) {
  int tid = (int)gsb::ThreadPool::getTID();
  term.initializeThread();
  bar.wait();
  for (;;) {
    if (obs_load(&broken)) return;   // the executor's break path: threads leave without the detector having announced anything
    // take up to `batch` units from my mailbox
    int have = mailbox[tid].load(std::memory_order_acquire);
    int took = 0;
    if (have > 0) {
      int want = have < batch ? have : batch;
      int old = mailbox[tid].fetch_sub(want, std::memory_order_acq_rel);
      took = want; (void)old;
    }
    for (int u = 0; u < took; u++) {
      obs_store(&unreported[tid], 1);
      // processing a unit may create work for anybody (only while consuming work)
      if ((int)(trand(tid) % 100) < spawn_pct) {
        int k = pingpong ? 1 : 1 + (int)(trand(tid) % 3);
        for (int j = 0; j < k; j++) {
          if (obs_load(&spawn_budget) <= 0) break;
          obs_add(&spawn_budget, -1L);
          int dst = (int)(trand(tid) % n);
          if (pingpong && dst == tid) dst = (tid + 1) % n;
          mailbox[dst].fetch_add(1, std::memory_order_acq_rel);
          if (obs_add(&outstanding, 1L) == 0) { /* cannot happen: we still hold a unit */ }
        }
      }
      if (trand(tid) % 4 == 0) vsim_yield();
      if (break_after >= 0 && obs_add(&consumed_total, 1L) + 1 >= break_after) obs_store(&broken, 1);
      long o = obs_add(&outstanding, -1L);
      if (o == 1) { rounds = 0; ncalled = 0; for (int i = 0; i < n; i++) called[i] = 0; }  // last unit gone: start counting fair rounds
    }
    bool did = took > 0;
    if (did && term.globalTermination()) vsim_fail("c04.safety", "%s detector n=%d: thread %d consumed work after global termination had been announced", which, n, tid);
    term.localTermination(did);
    obs_store(&unreported[tid], 0);
    if (!did) note_idle_call(tid);
    gsb::asmPause();
    if (term.globalTermination()) {
      long o = obs_load(&outstanding);
      if (o != 0) vsim_fail("c04.safety", "%s detector n=%d: thread %d observed global termination while %ld work unit(s) are outstanding", which, n, tid, o);
      for (int i = 0; i < n; i++) if (obs_load(&unreported[i])) vsim_fail("c04.safety", "%s detector n=%d: termination announced while thread %d has unreported work", which, n, i);
      obs_store(&seen_term[tid], 1);
      break;
    }
    if (obs_load(&outstanding) == 0 && rounds > bound)
      vsim_fail("c04.liveness", "%s detector n=%d: all threads idle for %d fair rounds (bound %d) and no announcement", which, n, rounds, bound);
  }
}

int main() {
  int cap = tier() ? 16 : 8;
  int maxT = (int)vsim_param("maxthreads", 1, cap);
  Machine m = draw_machine(maxT);
  int which = (int)vsim_param("detector", 0, 1);
  int loops = (int)vsim_param("loops", 1, 5);
  vsim_note("component", "detector=%s", which ? "tree" : "ring");
  vsim_enable_fault(VF_CAS_WEAK, 0.005, 0.1);
  vsim_enable_fault(VF_COND_SPURIOUS, 0.02, 0.3);
  vsim_set_budget(5000000);
  galois::SharedMemSys G;
  auto& tp = gsb::getThreadPool();
  int hw = (int)tp.getMaxThreads();
  Tree tree;
  std::string plan;
  int prev_n = 1; bool prev_abandoned = false;
  for (int l = 0; l < loops; l++) {
    int n = (int)wl_range(1, hw);
    bool after_abandoned = l > 0 && prev_abandoned;
    int units = (int)wl_range(0, 30), spawn_pct = (int)wl_range(0, 70), batch = (int)wl_range(1, 4);
    spawn_budget = wl_range(0, tier() ? 400 : 120);
    pingpong = wl_chance(after_abandoned ? 80 : 45) && hw >= 2;
    if (after_abandoned) n = std::max(n, prev_n);   // whatever state the abandoned loop left on a thread is inside the next loop
    if (pingpong) {   // a single unit hopping between few threads: the classical hard case (late transfer to a thread that already looked)
      n = after_abandoned ? std::max(2, n) : (int)wl_range(2, std::min(hw, 4)); units = (int)wl_range(1, 2); spawn_pct = (int)wl_range(85, 100); batch = 1; spawn_budget = wl_range(3, 60);
    }
    nthreads = n;
    outstanding = 0; rounds = 0; ncalled = 0;
    // 20 % of the loops (never the last one) are abandoned after a drawn number of consumed units, wherever the token is
    consumed_total = 0; broken = 0; break_after = (l + 1 < loops && wl_chance(35)) ? wl_range(0, 12) : -1;
    if (break_after == 0) broken = 1;
    for (int t = 0; t < MAXT; t++) { mailbox[t].store(0, std::memory_order_relaxed); called[t] = 0; unreported[t] = 0; seen_term[t] = 0; rng[t] = vsim_wl_rand() | 1; }
    for (int u = 0; u < units; u++) { int dst = (wl_chance(40) || pingpong) ? 0 : (int)wl_range(0, n - 1); mailbox[dst].fetch_add(1, std::memory_order_relaxed); outstanding++; }
    int bound = 2 * (3 * n + 6);
    gsb::TerminationDetection* term;
    if (which) { tree.setup(n); term = &tree; } else term = &gsb::getSystemTermination(n);
    auto& bar = galois::runtime::getBarrier(n);
    char b[80]; snprintf(b, sizeof b, "%s[n=%d units=%d spawn=%d%% batch=%d]", l ? " " : "", n, units, spawn_pct, batch); plan += b;
    tp.run(n, [&]() { worker(*term, bar, n, spawn_pct, batch, which ? "tree" : "ring", bound); });
    prev_n = n; prev_abandoned = obs_load(&broken) != 0;
    if (obs_load(&broken)) { vsim_probe_add("loops_abandoned", 1); plan += "(abandoned)"; continue; }   // nothing is promised about an abandoned loop; the next one re-arms the same detector
    for (int t = 0; t < n; t++) if (!seen_term[t]) vsim_fail("c04.liveness", "thread %d left the loop without observing termination", t);
    if (outstanding != 0) vsim_fail("c04.safety", "loop %d ended with %ld outstanding units", l, outstanding);
    for (int t = 0; t < n; t++) if (mailbox[t].load() != 0) vsim_fail("c04.safety", "mailbox %d not empty after termination", t);
    vsim_probe_add("loops", 1);
  }
  vsim_probe_add("max_idle_rounds", 0);
  vsim_note("plan", "%s", plan.c_str());
  vsim_note("max_idle_rounds", "%d", max_rounds_seen);
  return 0;
}
