// Generated for_each workloads and the oracles of C01 (work conservation), C02 (isolation),
// C08 (level order) and C06(e) (push -> pop is a happens-before edge).
#ifndef LOOPS_H
#define LOOPS_H
#include "hcommon.h"
#include "galois/Galois.h"
#include "galois/Bag.h"
#include "galois/runtime/Context.h"
#include "galois/substrate/ThreadPool.h"
#include <algorithm>
#include <array>
#include <map>

namespace lp {

constexpr int MAXITEMS = 4096, MAXOBJ = 16, MAXLEVEL = 64;

struct Step { unsigned char kind, arg; };  // 0 acquire(arg = obj | flag<<4), 1 push(arg = child idx), 2 yield
struct Item {
  int id, parent, depth, prio, owner;
  std::vector<int> children;
  std::vector<Step> prog;   // steps before/at the last acquire
  std::vector<Step> tail;   // steps after the last acquire (pushes, yields)
  int vol_aborts;           // voluntary aborts on the first attempts
  bool in_closure;
  // ledger (observation cells)
  int attempts, commits, starts_in_flight;
  uint64_t commit_seq;
};

struct Obj : public galois::runtime::Lockable {
  long* stamp;   // tracked
  long* state;   // tracked
};

struct alignas(16) Probe : public galois::runtime::LockManagerBase {
  bool isFree(galois::runtime::Lockable* l) {
    if (getOwner(l) != nullptr) return false;
    if (!tryLock(l)) return false;
    setOwner(l);
    release(l);
    return true;
  }
};

enum Order { ORD_NONE = 0, ORD_BSP, ORD_PRIO_ASC, ORD_PRIO_DESC, ORD_PRIO_ASC_STRICT };

struct Workload {
  std::vector<Item> items;
  std::vector<int> roots;
  std::vector<Obj> objs;
  int nobj = 0;
  long* payload = nullptr;  // tracked: written by the pusher, read by the popper
  bool cd = true;           // conflict detection on
  int order = ORD_NONE;
  int nthreads = 1;
  int pending[MAXLEVEL + 2] = {0};  // uncommitted existing items per level (C08)
  int in_flight = 0;
  long total_closure = 0, committed = 0, aborted_voluntary = 0, conflicts_seen = 0;
  std::vector<std::pair<uint64_t, int>> commit_log;
  bool loop_running = false;
  bool exercise_known = false;
};
static Workload* G;

struct Indexer { unsigned operator()(int id) const { return (unsigned)G->items[id].prio; } };
struct IndexerInt { int operator()(int id) const { return G->items[id].prio; } };
struct OwnerFn { unsigned operator()(int id) const { return (unsigned)G->items[id].owner; } };
struct PrioLess { bool operator()(int a, int b) const { const Item& x = G->items[a]; const Item& y = G->items[b]; return x.prio != y.prio ? x.prio < y.prio : a < b; } };

inline int level_of(const Item& it) { return G->order == ORD_BSP ? it.depth : it.prio; }
inline bool order_desc() { return G->order == ORD_PRIO_DESC; }

// ---- generator -------------------------------------------------------------
inline void generate(Workload& w, bool cd, int order, int nthreads, int focus, int force_items = 0) {
  w.cd = cd; w.order = order; w.nthreads = nthreads;
  w.exercise_known = vsim_param_fixed("exercise_known", 0) != 0;
  int big = tier() ? 3000 : 200;
  int n = (int)wl_range(1, wl_chance(15) ? big : 60);
  // sometimes one root pushes more than fastPushBackLimit (64) children BEFORE its last acquire and aborts afterwards
  bool bigfan = focus != 7 && wl_chance(8);
  if (bigfan) n = (int)wl_range(130, 260);
  if (force_items) n = force_items;
  int nroots = (int)wl_range(1, std::max(1, std::min(n, wl_chance(50) ? 8 : n)));
  w.nobj = (int)wl_range(focus == 2 ? 2 : 1, focus == 2 ? 6 : 12);
  int maxfan = (int)wl_range(0, 4);
  int maxdepth = (int)wl_range(1, 6);
  bool vol = cd && focus != 7 && wl_chance(40);
  int conflict_pct = (int)wl_range(0, 100);   // how much neighbourhoods overlap
  w.items.resize(n);
  w.objs.resize(w.nobj);
  long* cells = (long*)vsim_tracked_alloc(sizeof(long) * 2 * w.nobj);
  for (int o = 0; o < w.nobj; o++) { w.objs[o].stamp = &cells[2 * o]; w.objs[o].state = &cells[2 * o + 1]; }
  w.payload = (long*)vsim_tracked_alloc(sizeof(long) * n);
  for (int i = 0; i < n; i++) {
    Item& it = w.items[i];
    it.id = i; it.parent = -1; it.depth = 0; it.in_closure = false; it.attempts = it.commits = it.starts_in_flight = 0; it.commit_seq = 0;
    it.vol_aborts = vol && wl_chance(25) ? (int)wl_range(1, 3) : 0;
    it.owner = (int)wl_range(0, nthreads - 1);
    it.prio = 0;
  }
  for (int i = 0; i < nroots; i++) w.roots.push_back(i);
  // forest: every non-root id gets at most one parent with a smaller id
  int next = nroots;
  for (int i = 0; i < n && next < n; i++) {
    Item& it = w.items[i];
    if (i >= nroots && it.parent < 0) continue;   // unreachable id: must never run
    if (it.depth >= maxdepth) continue;
    int fan = (int)wl_range(0, maxfan);
    if (wl_chance(3) && tier()) fan = 70;          // beyond fastPushBackLimit
    if (bigfan && i == 0) fan = (int)wl_range(66, 110);
    for (int c = 0; c < fan && next < n; c++) {
      if (wl_chance(10)) { next++; if (next >= n) break; }  // leave holes: ids that are never work
      Item& ch = w.items[next];
      ch.parent = i; ch.depth = it.depth + 1;
      it.children.push_back(next); next++;
    }
  }
  // priorities: monotone (child >= parent for ascending, <= for descending)
  bool dense = wl_chance(50);
  for (int i = 0; i < n; i++) {
    Item& it = w.items[i];
    int base = it.parent >= 0 ? w.items[it.parent].prio : (order == ORD_PRIO_DESC ? MAXLEVEL - 1 - (int)wl_range(0, dense ? 3 : 20) : (int)wl_range(order == ORD_PRIO_ASC_STRICT ? 1 : 0, dense ? 3 : 20));
    int d = it.parent >= 0 ? (int)wl_range(order == ORD_PRIO_ASC_STRICT ? 1 : 0, dense ? 1 : 6) : 0;
    it.prio = order == ORD_PRIO_DESC ? std::max(0, base - d) : std::min(MAXLEVEL - 1, base + d);
    if (order == ORD_BSP) it.prio = it.depth;
    if (order == ORD_NONE && !dense) it.prio = (int)wl_range(0, 24);   // schedulers without an order promise get arbitrary (non-monotone) priorities
  }
  // closure
  for (int r : w.roots) w.items[r].in_closure = true;
  for (int i = 0; i < n; i++) if (w.items[i].in_closure) for (int c : w.items[i].children) w.items[c].in_closure = true;
  for (int i = 0; i < n; i++) if (w.items[i].in_closure) w.total_closure++;
  // programs
  for (int i = 0; i < n; i++) {
    Item& it = w.items[i];
    int nacq = cd ? (int)wl_range(0, std::min(w.nobj, 4)) : (int)wl_range(0, 2);
    size_t nextchild = 0;
    if (bigfan && i == 0) {
      // all pushes first, then the (aborting) last acquire
      if (wl_chance(50)) it.prog.push_back(Step{0, (unsigned char)(wl_range(0, w.nobj - 1))});
      while (nextchild < it.children.size()) it.prog.push_back(Step{1, (unsigned char)(nextchild++)});
      it.prog.push_back(Step{0, (unsigned char)(wl_range(0, std::min(w.nobj - 1, 1)))});
      if (cd) it.vol_aborts = (int)wl_range(1, 2);
      continue;
    }
    int hot = (int)wl_range(0, w.nobj - 1);
    for (int a = 0; a < nacq; a++) {
      int o = wl_chance(conflict_pct) ? (int)wl_range(0, std::min(w.nobj - 1, 1)) : (int)wl_range(0, w.nobj - 1);
      if (a == 0 && wl_chance(30)) o = hot;
      if (a > 0 && wl_chance(15)) o = it.prog.empty() ? o : (it.prog[0].kind == 0 ? (it.prog[0].arg & 15) : o);  // re-acquire
      int flag = (int)wl_range(0, 9); flag = flag < 6 ? 0 /*WRITE*/ : flag < 9 ? 1 /*READ*/ : 2 /*UNPROTECTED*/;
      if (wl_chance(30)) it.prog.push_back(Step{2, (unsigned char)wl_range(1, 3)});
      if (focus != 7 && nextchild < it.children.size() && wl_chance(30)) it.prog.push_back(Step{1, (unsigned char)nextchild++});
      it.prog.push_back(Step{0, (unsigned char)(o | (flag << 4))});
    }
    while (nextchild < it.children.size()) {
      if (wl_chance(20)) it.tail.push_back(Step{2, (unsigned char)wl_range(1, 2)});
      it.tail.push_back(Step{1, (unsigned char)(nextchild++ & 0xff)});
    }
    if (wl_chance(20)) it.tail.push_back(Step{2, (unsigned char)wl_range(1, 3)});
  }
}

// ---- the operator ----------------------------------------------------------
template <bool PIA, class Ctx>
inline void body(int id, Ctx& ctx) {
  Workload& w = *G;
  // the harness's own bookkeeping (shared ledgers, the commit log) relies on running atomically between library calls:
  // plain-access decision points are held off here and released around every call into the library
  vsim_plain_hold(1);
  if (id < 0 || id >= (int)w.items.size()) vsim_fail("c01.garbage-item", "operator called with item %d outside the workload", id);
  Item& it = w.items[id];
  int attempt = obs_add(&it.attempts, 1);
  if (!it.in_closure) vsim_fail("c01.not-work", "item %d ran although no committed iteration pushed it", id);
  if (it.parent >= 0 && !obs_load(&w.items[it.parent].commits)) vsim_fail("c01.push-of-uncommitted", "item %d runs but its only pusher %d has not committed (push of an aborted or unfinished attempt became work)", id, it.parent);
  if (obs_load(&it.commits) != 0) vsim_fail("c01.duplicate", "item %d starts again (attempt %d) after it already committed", id, attempt);
  // C08: level order at start
  if (w.order != ORD_NONE) {
    int lv = level_of(it);
    if (w.order == ORD_PRIO_DESC) { for (int q = lv + 1; q <= MAXLEVEL; q++) if (obs_load(&w.pending[q]) > 0) vsim_fail("c08.level-order", "item %d (priority %d, descending) starts while %d item(s) of more urgent priority %d are uncommitted", id, lv, w.pending[q], q); }
    else { for (int q = 0; q < lv; q++) if (obs_load(&w.pending[q]) > 0) vsim_fail("c08.level-order", "item %d (level %d) starts while %d item(s) of earlier level %d are uncommitted", id, lv, w.pending[q], q); }
  }
  // C06(e): what the pusher (or the master, for initial items) wrote must be visible
  long pv = w.payload[id];
  if (pv != 7000 + id) vsim_fail("c06.push-pop.value", "item %d popped with payload %ld, pusher wrote %d", id, pv, 7000 + id);
  if (!w.cd) {   // without conflict detection an iteration cannot abort: it commits by starting
    obs_add(&it.commits, 1);
    for (int c : it.children) w.payload[c] = 7000 + c;   // pushes may be flushed before the operator ends (fastPushBack): publish first
    if (w.order != ORD_NONE) for (int c : it.children) obs_add(&w.pending[level_of(w.items[c])], 1);   // same reason: children exist from now on
  }
  // per-iteration allocations
  char* blocks[3] = {nullptr, nullptr, nullptr}; size_t bsz[3] = {0, 0, 0};
  if constexpr (PIA) {
    for (int b = 0; b < 3; b++) {
      bsz[b] = (size_t)(1 + (id * 37 + b * 101 + attempt * 7) % (b == 2 && id % 11 == 0 ? 5000 : 300));
      vsim_plain_hold(0); blocks[b] = (char*)ctx.getPerIterAlloc().allocate(bsz[b]); vsim_plain_hold(1);
      if (!blocks[b]) vsim_fail("c09.periter.null", "per-iteration allocator returned null for %zu bytes", bsz[b]);
      if ((uintptr_t)blocks[b] % 8) vsim_fail("c09.periter.align", "per-iteration block %p not 8-byte aligned", (void*)blocks[b]);
      memset(blocks[b], 0x40 + b, bsz[b]);
      for (int c = 0; c < b; c++) if (blocks[c] < blocks[b] + bsz[b] && blocks[b] < blocks[c] + bsz[c]) vsim_fail("c09.periter.overlap", "per-iteration blocks overlap within one attempt");
    }
  }
  // program up to and including the last acquire
  Obj* owned[8]; unsigned char oflag[8]; int nown = 0;
  for (const Step& s : it.prog) {
    switch (s.kind) {
    case 0: {
      Obj* o = &w.objs[s.arg & 15]; int f = s.arg >> 4;
      if (w.cd && attempt < it.vol_aborts && &s == &it.prog.back()) {
        obs_add(&w.aborted_voluntary, 1L);
        if (w.nthreads == 1 && !w.exercise_known) vsim_known("threads=1 voluntary_abort", "ctx.abort() with one active thread: the executor installs no setjmp frame (couldAbort = needsAborts && activeThreads > 1)");
        else { vsim_plain_hold(0); ctx.abort(); }   // voluntary abort before the last acquire (still cautious)
      }
      vsim_plain_hold(0);   // (an abort leaves from inside acquire: the hold must already be released)
      galois::runtime::acquire(o, f == 0 ? galois::MethodFlag::WRITE : f == 1 ? galois::MethodFlag::READ : galois::MethodFlag::UNPROTECTED);
      vsim_plain_hold(1);
      if (f != 2 && w.cd) { bool dup = false; for (int k = 0; k < nown; k++) if (owned[k] == o) { dup = true; if (f == 0) oflag[k] = 0; } if (!dup && nown < 8) { owned[nown] = o; oflag[nown++] = (unsigned char)f; } }
      break; }
    case 1: vsim_plain_hold(0); ctx.push(it.children[s.arg]); vsim_plain_hold(1); break;
    default: for (int y = 0; y < s.arg; y++) vsim_yield();
    }
  }
  // ---- past the last acquire: this attempt will commit ----
  if (w.cd) {
    int c = obs_add(&it.commits, 1);
    if (c != 0) vsim_fail("c01.duplicate", "item %d commits a second time", id);
  }
  it.commit_seq = vsim_step();
  obs_add(&w.committed, 1L);
  w.commit_log.emplace_back(it.commit_seq, id);
  if (w.order != ORD_NONE) {
    if (w.cd) for (int c : it.children) obs_add(&w.pending[level_of(w.items[c])], 1);
    if (obs_add(&w.pending[level_of(it)], -1) <= 0) vsim_fail("c08.ledger", "level ledger underflow at item %d", id);
  }
  if (w.cd) for (int c : it.children) w.payload[c] = 7000 + c;   // plain write published by the push
  // C02: exclusive ownership of everything acquired (stamps), non-commutative update
  long token = (long)id * 16 + attempt + 1;
  for (int k = 0; k < nown; k++) {
    long s = *owned[k]->stamp;
    if (s != 0) vsim_fail("c02.double-owner", "item %d owns object %d but finds stamp %ld of another iteration (item %ld attempt %ld)", id, (int)(owned[k] - &w.objs[0]), s, s / 16, s % 16 - 1);
    if (oflag[k] == 0) *owned[k]->stamp = token;
  }
  if (nown) vsim_yield();
  for (int k = 0; k < nown; k++) {
    if (oflag[k] == 0) {
      if (*owned[k]->stamp != token) vsim_fail("c02.double-owner", "item %d: stamp on object %d changed under its owner", id, (int)(owned[k] - &w.objs[0]));
      *owned[k]->state = *owned[k]->state * 31 + id + 1;
      *owned[k]->stamp = 0;
    } else {
      if (*owned[k]->stamp != 0) vsim_fail("c02.double-owner", "item %d holds object %d for reading while a writer stamped it", id, (int)(owned[k] - &w.objs[0]));
    }
  }
  for (const Step& s : it.tail) {
    if (s.kind == 1) { vsim_plain_hold(0); ctx.push(it.children[s.arg]); vsim_plain_hold(1); }
    else for (int y = 0; y < s.arg; y++) vsim_yield();
  }
  if constexpr (PIA) {
    for (int b = 0; b < 3; b++) for (size_t k = 0; k < bsz[b]; k += (bsz[b] > 64 ? 17 : 1)) if (blocks[b][k] != (char)(0x40 + b)) vsim_fail("c09.periter.canary", "per-iteration block lost its contents before its attempt ended");
  }
  vsim_plain_hold(0);
}

// ---- after the loop --------------------------------------------------------
inline void check_after(const char* wlname) {
  Workload& w = *G;
  long lost = 0, dup = 0, extra = 0; int first_lost = -1;
  for (Item& it : w.items) {
    if (it.in_closure && it.commits == 0) { lost++; if (first_lost < 0) first_lost = it.id; }
    if (it.commits > 1) dup++;
    if (!it.in_closure && it.commits) extra++;
  }
  if (lost || dup || extra)
    vsim_fail("c01.conservation", "%s cd=%d threads=%d: loop returned with %ld of %ld items never committed (first: item %d, depth %d, pushed by %d), %ld duplicated, %ld spurious",
              wlname, (int)w.cd, w.nthreads, lost, w.total_closure, first_lost, first_lost >= 0 ? w.items[first_lost].depth : -1, first_lost >= 0 ? w.items[first_lost].parent : -1, dup, extra);
  // C02: nothing left owned, no stamp left, serial replay in commit order gives the same state
  Probe pr;
  for (int o = 0; o < w.nobj; o++) {
    if (!pr.isFree(&w.objs[o])) vsim_fail("c02.leaked-lock", "object %d is still owned after the loop returned", o);
    if (*w.objs[o].stamp != 0) vsim_fail("c02.stamp-left", "object %d still carries stamp %ld", o, *w.objs[o].stamp);
  }
  if (w.cd) {
    // commit_log is appended at the commit point, i.e. it already is in exact commit order
    std::vector<long> ref(w.nobj, 0);
    for (auto& ce : w.commit_log) {
      Item& it = w.items[ce.second];
      // objects written by this item (WRITE flag wins over READ on re-acquisition)
      bool wr[MAXOBJ] = {false};
      for (const Step& s : it.prog) if (s.kind == 0 && (s.arg >> 4) == 0) wr[s.arg & 15] = true;
      // order of updates inside one iteration follows first acquisition order
      bool done[MAXOBJ] = {false};
      for (const Step& s : it.prog) if (s.kind == 0 && (s.arg >> 4) != 2) { int o = s.arg & 15; if (wr[o] && !done[o]) { ref[o] = ref[o] * 31 + it.id + 1; done[o] = true; } }
    }
    for (int o = 0; o < w.nobj; o++) if (*w.objs[o].state != ref[o]) vsim_fail("c02.serializability", "object %d: final state %ld differs from the serial replay of the commit log %ld", o, *w.objs[o].state, ref[o]);
  }
}

// ---- running one loop ------------------------------------------------------
template <class WL, bool CD, bool PIA, int RANGE, class... WArgs>
inline void run_loop(const char* wlname, int order, int focus, WArgs... wargs) {
  auto& tp = galois::substrate::getThreadPool();
  int hw = (int)tp.getMaxThreads();
  int n = (int)vsim_param("threads", 1, hw);
  if (focus == 2 && n < 2 && hw >= 2) n = 2;
  galois::setActiveThreads(n);
  n = (int)galois::getActiveThreads();
  static Workload w;
  G = &w;
  generate(w, CD, order, n, focus);
  vsim_note("component", "wl=%s", wlname);
  vsim_set_budget(400000 + 4000ull * w.items.size());
  vsim_note("workload", "items=%zu closure=%ld roots=%zu objs=%d threads=%d order=%d range=%d pia=%d", w.items.size(), w.total_closure, w.roots.size(), w.nobj, n, order, RANGE, (int)PIA);
  for (int r : w.roots) { w.payload[r] = 7000 + r; obs_add(&w.pending[level_of(w.items[r])], 1); }
  auto op = [](int id, auto& ctx) { body<PIA>(id, ctx); };
  auto run = [&](auto range) {
    if constexpr (CD && PIA) galois::for_each(range, op, galois::wl<WL>(wargs...), galois::per_iter_alloc());
    else if constexpr (CD && !PIA) galois::for_each(range, op, galois::wl<WL>(wargs...));
    else if constexpr (!CD && PIA) galois::for_each(range, op, galois::wl<WL>(wargs...), galois::disable_conflict_detection(), galois::per_iter_alloc());
    else galois::for_each(range, op, galois::wl<WL>(wargs...), galois::disable_conflict_detection());
  };
  vsim_plain_preempt_window(1);
  if constexpr (RANGE == 0) { run(galois::iterate(w.roots)); }
  else if constexpr (RANGE == 1) { run(galois::iterate(0, (int)w.roots.size())); }
  else {
    galois::InsertBag<int> bag;
    galois::on_each([&](unsigned tid, unsigned tot) { for (size_t i = tid; i < w.roots.size(); i += tot) bag.push(w.roots[i]); });
    run(galois::iterate(bag));
  }
  vsim_plain_preempt_window(0);
  check_after(wlname);
  long aborted = 0; for (Item& it : w.items) aborted += it.attempts - (it.commits ? 1 : 0);
  vsim_probe_add("attempts_aborted", (uint64_t)aborted);
  vsim_probe_add("voluntary_aborts", (uint64_t)w.aborted_voluntary);
  vsim_probe_add("items_committed", (uint64_t)w.committed);
  if (aborted) vsim_probe("runs_with_aborts");
}

}  // namespace lp
#endif
