// Shared helpers for galsim harnesses.
#ifndef HCOMMON_H
#define HCOMMON_H
#include "vsim.h"
#include <cstdio>
#include <cstdlib>
#include <cstring>
#include <string>
#include <vector>

#define NOSAN __attribute__((noinline, no_sanitize("thread")))

// Observation cells: harness-side bookkeeping that must NOT create decision
// points or HB edges.  Safe because the simulator runs one thread at a time.
template <class T> NOSAN static void obs_store(T* p, T v) { *(volatile T*)p = v; }
template <class T> NOSAN static T obs_load(const T* p) { return *(const volatile T*)p; }
template <class T> NOSAN static T obs_add(T* p, T v) { T o = *(volatile T*)p; *(volatile T*)p = o + v; return o; }

struct Machine {
  int hw;  // usable hardware threads presented to Galois
  char desc[96];
};
// draws a topology with at most `cap` hardware threads
static inline Machine draw_machine(int cap) {
  Machine m;
  m.hw = vsim_draw_topology(cap, m.desc, sizeof m.desc);
  vsim_note("topology", "%s", m.desc);
  return m;
}
static inline int tier() { return (int)vsim_param_fixed("tier", 0); }

// workload-stream helpers
static inline long wl_range(long lo, long hi) { return lo + (long)vsim_wl_below((uint64_t)(hi - lo + 1)); }
static inline bool wl_chance(int pct) { return (int)vsim_wl_below(100) < pct; }

#endif
