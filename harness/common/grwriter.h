// Harness-side graph model, generator and independent binary .gr writer / decoder
// (Galois binary CSR format, versions 1 and 2).  Nothing here uses the library.
#ifndef GRWRITER_H
#define GRWRITER_H
#include "hcommon.h"
#include <algorithm>
#include <cstdint>
#include <cstdio>
#include <string>
#include <vector>

namespace gr {
struct Edge { uint32_t src, dst; uint64_t data; };
struct Model {
  uint32_t n = 0;
  std::vector<Edge> edges;            // sorted by src, file order within a node
  std::vector<uint64_t> end;          // prefix sums: end[i] = #edges of nodes 0..i
};

// shapes: 0 random sparse, 1 skewed (one hub), 2 chain, 3 with many isolated nodes, 4 complete-ish small, 5 star in
static inline Model generate(int maxn, bool unique_data) {
  Model m;
  int shape = (int)wl_range(0, 5);
  m.n = (uint32_t)wl_range(0, 7) == 0 ? (uint32_t)wl_range(0, 2) : (uint32_t)wl_range(1, maxn);
  uint32_t n = m.n;
  std::vector<std::pair<uint32_t, uint32_t>> es;
  if (n) {
    size_t target = shape == 4 ? (size_t)n * std::min<uint32_t>(n, 6) : (size_t)wl_range(0, 3 * n);
    for (size_t k = 0; k < target; k++) {
      uint32_t s, d;
      switch (shape) {
      case 1: s = wl_chance(60) ? 0 : (uint32_t)wl_range(0, n - 1); d = (uint32_t)wl_range(0, n - 1); break;
      case 2: s = (uint32_t)(k % n); d = (s + 1) % n; break;
      case 3: s = (uint32_t)wl_range(0, n - 1) / 4 * 4 % n; d = (uint32_t)wl_range(0, n - 1); break;
      case 5: s = (uint32_t)wl_range(0, n - 1); d = wl_chance(70) ? n - 1 : (uint32_t)wl_range(0, n - 1); break;
      default: s = (uint32_t)wl_range(0, n - 1); d = wl_chance(10) ? s : (uint32_t)wl_range(0, n - 1); break;   // some self loops
      }
      es.push_back({s, d});
      if (wl_chance(8)) es.push_back({s, d});    // parallel edges
    }
    if (wl_chance(50) && !es.empty()) {  // make sure the last node sometimes has / has no edges
      if (wl_chance(50)) es.push_back({n - 1, (uint32_t)wl_range(0, n - 1)});
      else es.erase(std::remove_if(es.begin(), es.end(), [n](auto& e) { return e.first == n - 1; }), es.end());
    }
  }
  std::stable_sort(es.begin(), es.end(), [](auto& a, auto& b) { return a.first < b.first; });
  uint64_t k = 0;
  for (auto& e : es) { m.edges.push_back(Edge{e.first, e.second, unique_data ? k + 1 : (uint64_t)wl_range(0, 1000)}); k++; }
  m.end.assign(n, 0);
  for (auto& e : m.edges) m.end[e.src]++;
  for (uint32_t i = 1; i < n; i++) m.end[i] += m.end[i - 1];
  return m;
}

static inline void put64(std::vector<unsigned char>& b, uint64_t v) { for (int i = 0; i < 8; i++) b.push_back((unsigned char)(v >> (8 * i))); }
static inline void put32(std::vector<unsigned char>& b, uint32_t v) { for (int i = 0; i < 4; i++) b.push_back((unsigned char)(v >> (8 * i))); }

// Independent encoder.  `pad_v2`: whether a version-2 file pads the destination array to 8 bytes
// (it never needs to: 64-bit entries are always aligned).
static inline std::vector<unsigned char> encode(const Model& m, int version, size_t sizeofEdge) {
  std::vector<unsigned char> b;
  put64(b, (uint64_t)version); put64(b, sizeofEdge); put64(b, m.n); put64(b, m.edges.size());
  for (uint32_t i = 0; i < m.n; i++) put64(b, m.end[i]);
  for (auto& e : m.edges) { if (version == 1) put32(b, e.dst); else put64(b, e.dst); }
  if (version == 1 && m.edges.size() % 2) put32(b, 0);
  for (auto& e : m.edges) { if (sizeofEdge == 4) put32(b, (uint32_t)e.data); else if (sizeofEdge == 8) put64(b, e.data); }
  return b;
}
static inline void write_file(const std::string& path, const std::vector<unsigned char>& b) {
  FILE* f = fopen(path.c_str(), "wb");
  if (!f) vsim_fail("harness.io", "cannot create %s", path.c_str());
  if (!b.empty() && fwrite(b.data(), 1, b.size(), f) != b.size()) vsim_fail("harness.io", "short write to %s", path.c_str());
  fclose(f);
}
static inline std::vector<unsigned char> read_file(const std::string& path) {
  std::vector<unsigned char> b;
  FILE* f = fopen(path.c_str(), "rb");
  if (!f) return b;
  unsigned char buf[65536]; size_t k;
  while ((k = fread(buf, 1, sizeof buf, f)) > 0) b.insert(b.end(), buf, buf + k);
  fclose(f);
  return b;
}
static inline uint64_t get64(const std::vector<unsigned char>& b, size_t o) { uint64_t v = 0; for (int i = 0; i < 8; i++) v |= (uint64_t)b[o + i] << (8 * i); return v; }
static inline uint32_t get32(const std::vector<unsigned char>& b, size_t o) { uint32_t v = 0; for (int i = 0; i < 4; i++) v |= (uint32_t)b[o + i] << (8 * i); return v; }

// Independent decoder.  Returns false (with reason) if the bytes are not a well-formed graph file.
static inline bool decode(const std::vector<unsigned char>& b, Model& m, int& version, size_t& sizeofEdge, std::string& why) {
  if (b.size() < 32) { why = "shorter than the header"; return false; }
  version = (int)get64(b, 0); sizeofEdge = get64(b, 8); uint64_t n = get64(b, 16), ne = get64(b, 24);
  if (version != 1 && version != 2) { why = "bad version"; return false; }
  size_t idx = 32, dsts = idx + 8 * n, dw = version == 1 ? 4 : 8;
  size_t data = dsts + dw * ne; if (version == 1 && ne % 2) data += 4;
  size_t need = data + sizeofEdge * ne;
  if (b.size() < need) { why = "file shorter than its header implies (" + std::to_string(b.size()) + " < " + std::to_string(need) + ")"; return false; }
  if (b.size() > need + 8) { why = "file longer than its header implies (" + std::to_string(b.size()) + " > " + std::to_string(need) + ")"; return false; }
  m.n = (uint32_t)n; m.end.resize(n); m.edges.clear();
  uint64_t prev = 0;
  for (uint64_t i = 0; i < n; i++) { m.end[i] = get64(b, idx + 8 * i); if (m.end[i] < prev || m.end[i] > ne) { why = "index array not monotone"; return false; } prev = m.end[i]; }
  if (n && m.end[n - 1] != ne) { why = "last index != edge count"; return false; }
  uint32_t src = 0;
  for (uint64_t e = 0; e < ne; e++) {
    while (src < n && m.end[src] <= e) src++;
    uint64_t d = version == 1 ? get32(b, dsts + 4 * e) : get64(b, dsts + 8 * e);
    uint64_t v = sizeofEdge == 4 ? get32(b, data + 4 * e) : sizeofEdge == 8 ? get64(b, data + 8 * e) : 0;
    if (d >= n) { why = "destination out of range"; return false; }
    m.edges.push_back(Edge{src, (uint32_t)d, v});
  }
  return true;
}
}  // namespace gr
#endif
