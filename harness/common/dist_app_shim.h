// Force-included (-include) into the translation unit of a distributed Lonestar application that is compiled into a
// harness binary.  The application's `galois::DistMemSys G;` is redirected to a wrapper that builds the real runtime on the
// heap and never destroys it: DistMemSys's destructor merges statistics across hosts with a protocol of its own that is
// outside the listed properties (DESIGN section 9, last row); the C18/C19 harnesses skip it the same way.
#ifndef VERIF_DIST_APP_SHIM_H
#define VERIF_DIST_APP_SHIM_H
#include "galois/DistGalois.h"
namespace galois {
struct HarnessDistMemSys { HarnessDistMemSys() { new DistMemSys(); } };
}
#define DistMemSys HarnessDistMemSys
#endif
