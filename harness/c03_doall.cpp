// C03 — do_all / on_each / ThreadPool::run execute every element / thread id exactly once and join.
#include "hcommon.h"
#include "galois/Galois.h"
#include "galois/Bag.h"
#include "galois/substrate/ThreadPool.h"
#include "galois/gslist.h"
#include <algorithm>
#include <boost/iterator/counting_iterator.hpp>
#include <forward_list>
#include <functional>
#include <list>
#include <set>
#include <vector>

namespace gsb = galois::substrate;
constexpr int MAXE = 4200, MAXT = 32;
static int* cnt;             // tracked: per element invocation counter of the current region
static int* prev_cnt;        // tracked: counters of the previous region (interference check)
static int started, finished;
static int tid2sim[MAXT];    // pool tid -> simulated thread, learnt on first use
static int stolen_probe;
static int stop_dedicated;

static void elem(int i, int n) {
  if (i < 0 || i >= n) vsim_fail("c03.range", "function applied to element %d outside the range [0,%d)", i, n);
  obs_add(&started, 1);
  int c = cnt[i];          // plain RMW: two concurrent invocations on one element are also an HB race
  if ((i & 7) == 0) vsim_yield();
  cnt[i] = c + 1;
  obs_add(&finished, 1);
}
static void check_tid(unsigned tid, unsigned n) {
  if (tid >= n) vsim_fail("c03.tid", "thread id %u >= %u active threads executed work", tid, n);
  int s = vsim_tid();
  int old = obs_load(&tid2sim[tid]);
  if (old == -1) obs_store(&tid2sim[tid], s);
  else if (old != s) vsim_fail("c03.tid-mapping", "pool thread id %u ran on simulated thread %d, previously %d", tid, s, old);
}

template <class Range, unsigned CS, bool STEAL>
static void run_do_all(const Range& r, int n) {
  auto f = [n](int i) { elem(i, n); };
  if constexpr (STEAL) galois::do_all(r, f, galois::chunk_size<CS>(), galois::steal());
  else galois::do_all(r, f, galois::chunk_size<CS>());
}
template <class RangeMaker>
static void dispatch(RangeMaker mk, int n, int variant) {
  switch (variant) {
  case 0: run_do_all<decltype(mk()), 1, true>(mk(), n); break;
  case 1: run_do_all<decltype(mk()), 3, false>(mk(), n); break;
  case 2: run_do_all<decltype(mk()), 32, true>(mk(), n); break;
  default: run_do_all<decltype(mk()), 4096, false>(mk(), n); break;
  }
}

int main() {
  int cap = tier() ? 16 : 8;
  int maxT = (int)vsim_param("maxthreads", 1, cap);
  Machine m = draw_machine(maxT);
  int regions = (int)vsim_param("regions", 1, 6);
  vsim_enable_fault(VF_CAS_WEAK, 0.005, 0.1);
  vsim_enable_fault(VF_PLAIN_PREEMPT, 0.02, 0.6);   // plain shared data of the library (behind locks, in shared helper state) becomes preemptible
  vsim_plain_preempt_window(1);   // operators here keep no shared non-atomic bookkeeping of their own
  vsim_enable_fault(VF_COND_SPURIOUS, 0.02, 0.3);
  vsim_enable_fault(VF_LATE_START, 0.05, 0.5);
  vsim_set_budget(6000000);
  vsim_note("component", "do_all/on_each");
  galois::SharedMemSys G;
  auto& tp = gsb::getThreadPool();
  int hw = (int)tp.getMaxThreads();
  // 15 % of the runs take one pool thread away first (ThreadPool::runDedicated): requests for "all threads" must then be
  // clamped to what is left, and every region must run on exactly the reported number of threads
  std::function<void(void)> dedicated_fn = [&]() { while (!obs_load(&stop_dedicated)) gsb::asmPause(); };
  bool dedicated = hw >= 3 && wl_chance(15);
  if (dedicated) { tp.runDedicated(dedicated_fn); vsim_probe("dedicated_thread"); }
  int usable = (int)tp.getMaxUsableThreads();
  cnt = (int*)vsim_tracked_alloc(sizeof(int) * MAXE);
  prev_cnt = (int*)vsim_tracked_alloc(sizeof(int) * MAXE);
  for (int t = 0; t < MAXT; t++) tid2sim[t] = -1;
  std::string plan;
  int prev_n = 0;
  for (int r = 0; r < regions; r++) {
    int k = (int)wl_range(1, hw);
    int asked = k;
    galois::setActiveThreads(k);
    k = (int)galois::getActiveThreads();
    if (k > usable || k < 1 || (asked <= usable && k != asked)) vsim_fail("c03.active-threads", "setActiveThreads(%d) made %d threads active; %d of %d pool threads are usable%s", asked, k, usable, hw, dedicated ? " (one is dedicated)" : "");
    int kind = (int)wl_range(0, 9);
    int sizes[] = {0, 1, k > 1 ? k - 1 : 1, 7, 31, 97, 257, (int)wl_range(2, 400), tier() ? (int)wl_range(1000, 4100) : (int)wl_range(300, 1100)};
    int n = sizes[wl_range(0, 8)];
    int variant = (int)wl_range(0, 3);
    bool fast = wl_chance(15);
    if (fast) tp.burnPower(k); else tp.beKind();
    // previous region's counters must not change any more
    for (int i = 0; i < prev_n; i++) prev_cnt[i] = cnt[i];
    for (int i = 0; i < MAXE; i++) cnt[i] = 0;
    obs_store(&started, 0); obs_store(&finished, 0);
    int expected = n;
    char b[96]; snprintf(b, sizeof b, "%s[k=%d kind=%d n=%d v=%d%s]", r ? " " : "", k, kind, n, variant, fast ? " fast" : ""); plan += b;
    switch (kind) {
    case 0: { std::vector<int> v(n); for (int i = 0; i < n; i++) v[i] = i; dispatch([&]() { return galois::iterate(v); }, n, variant); break; }
    case 1: dispatch([&]() { return galois::iterate(0, n); }, n, variant); break;
    case 2: { std::list<int> v; for (int i = 0; i < n; i++) v.push_back(i); dispatch([&]() { return galois::iterate(v); }, n, variant); break; }
    case 3: { std::set<int> v; for (int i = 0; i < n; i++) v.insert(i); dispatch([&]() { return galois::iterate(v); }, n, variant); break; }
    case 4: { std::forward_list<int> v; for (int i = n - 1; i >= 0; i--) v.push_front(i); dispatch([&]() { return galois::iterate(v.begin(), v.end()); }, n, variant); break; }
    case 5: {
      galois::InsertBag<int> bag;   // container with local iterators, filled unevenly by the threads
      int owner_skew = (int)wl_range(0, 2);
      galois::on_each([&](unsigned tid, unsigned tot) {
        check_tid(tid, tot);
        for (int i = 0; i < n; i++) { unsigned o = owner_skew == 0 ? i % tot : owner_skew == 1 ? 0 : (i * 7 + 3) % tot; if (o == tid) bag.push(i); }
      });
      dispatch([&]() { return galois::iterate(bag); }, n, variant);
      break; }
    case 6: {
      expected = k;
      std::vector<int> seen(MAXT, 0);
      galois::on_each([&](unsigned tid, unsigned tot) {
        if ((int)tot != k) vsim_fail("c03.on_each.total", "on_each reported %u threads, %d active", tot, k);
        check_tid(tid, tot);
        obs_add(&started, 1);
        int c = cnt[tid]; vsim_yield(); cnt[tid] = c + 1;
        obs_add(&seen[tid], 1);
        obs_add(&finished, 1);
      });
      n = k;
      break; }
    case 7: {
      // raw pool region with several commands and a barrier in between
      expected = k;
      auto& bar = galois::runtime::getBarrier(k);
      tp.run(k, [&]() { unsigned tid = gsb::ThreadPool::getTID(); check_tid(tid, k); obs_add(&started, 1); int c = cnt[tid]; cnt[tid] = c + 1; },
             std::ref(bar),
             [&]() { unsigned tid = gsb::ThreadPool::getTID(); for (int j = 0; j < k; j++) if (cnt[j] != 1) vsim_fail("c03.run.phase", "second command of ThreadPool::run sees cnt[%d]=%d after the barrier", j, cnt[j]); obs_add(&finished, 1); (void)tid; });
      n = k;
      break; }
    case 9: {
      // SpecificRange: user-specified per-thread block boundaries over [0,N), executed over a sub-range [gb,ge) (as libcusp does)
      size_t N = (size_t)n;
      std::vector<uint32_t> tb(k + 1, 0);
      for (int t = 1; t < k; t++) tb[t] = (uint32_t)wl_range(0, (long)N);
      tb[k] = (uint32_t)N; std::sort(tb.begin(), tb.end());
      size_t gb = (size_t)wl_range(0, (long)N), ge = (size_t)wl_range((long)gb, (long)N);
      if (wl_chance(30)) gb = 0; if (wl_chance(30)) ge = N;
      auto sr = galois::runtime::makeSpecificRange(boost::counting_iterator<size_t>(gb), boost::counting_iterator<size_t>(ge), tb.data());
      int off = (int)gb; int cnt_n = (int)(ge - gb);
      auto f = [&](size_t i) { if (i < gb || i >= ge) vsim_fail("c03.range", "SpecificRange [%zu,%zu) of %zu: function applied to element %zu outside the range", gb, ge, N, i); elem((int)i - off, cnt_n); };
      if (variant & 1) galois::do_all(galois::iterate(sr), f, galois::steal(), galois::chunk_size<2>()); else galois::do_all(galois::iterate(sr), f, galois::chunk_size<16>());
      n = cnt_n; expected = cnt_n;
      break; }
    default: {
      // gslist-like forward iteration through a two-level structure: vector of vectors flattened by do_all over the outer index
      std::vector<std::vector<int>> vv; int id = 0;
      while (id < n) { int len = (int)wl_range(0, 9); std::vector<int> row; for (int j = 0; j < len && id < n; j++) row.push_back(id++); vv.push_back(row); }
      auto f = [&](const std::vector<int>& row) { for (int i : row) elem(i, n); };
      if (variant & 1) galois::do_all(galois::iterate(vv), f, galois::steal(), galois::chunk_size<1>()); else galois::do_all(galois::iterate(vv), f, galois::chunk_size<2>());
      break; }
    }
    // ---- at return: everything ran exactly once and nothing is still running ----
    int st = obs_load(&started), fi = obs_load(&finished);
    if (st != expected || fi != expected) vsim_fail("c03.join", "region %d (%s): started=%d finished=%d expected=%d at return", r, b, st, fi, expected);
    for (int i = 0; i < n; i++) if (cnt[i] != 1) vsim_fail("c03.exactly-once", "region %d (%s): element %d executed %d times", r, b, i, cnt[i]);
    for (int i = n; i < MAXE; i++) if (cnt[i] != 0) vsim_fail("c03.exactly-once", "region %d: element %d outside the range was touched", r, i);
    prev_n = n;
  }
  tp.beKind();
  obs_store(&stop_dedicated, 1);
  vsim_note("plan", "%s", plan.c_str());
  return 0;
}
