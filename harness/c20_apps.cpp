// C20 — Lonestar applications compute the correct answer.  The REAL application source is compiled
// into this binary with its main() renamed to app_main (-Dmain=app_main on that source only); this
// driver generates a small graph, writes it with the harness writer, runs the application under the
// simulator with a drawn algorithm variant / thread count / topology, parses the summary it prints and
// compares with an independent reference implemented here.
//   -DAPP=1 bfs  2 sssp  3 connected-components  4 k-core  5 triangle-counting  6 independent-set  7 boruvka
#include "grwriter.h"
#include <algorithm>
#include <functional>
#include <limits>
#include <map>
#include <numeric>
#include <queue>
#include <set>
#include <string>

int app_main(int, char**);   // the application's own main(), renamed by -Dmain=app_main on its source
#ifndef APP
#define APP 1
#endif

static std::string out_text;
static void slurp() {
  static char buf[1 << 20];
  size_t n = vsim_read_stdout(buf, sizeof buf); out_text.assign(buf, n);
  n = vsim_read_stderr(buf, sizeof buf); out_text.append(buf, n);
}
static bool find_num(const char* key, long long& v) {
  size_t p = out_text.rfind(key);
  if (p == std::string::npos) return false;
  p += strlen(key);
  while (p < out_text.size() && (out_text[p] == ' ' || out_text[p] == ':')) p++;
  char* end; v = strtoll(out_text.c_str() + p, &end, 10);
  return end != out_text.c_str() + p;
}
static long long need_num(const char* app, const char* key) {
  long long v;
  if (!find_num(key, v)) vsim_fail("c20.output", "%s: summary line '%s' not found in the application's output (tail: %.300s)", app, key, out_text.size() > 300 ? out_text.c_str() + out_text.size() - 300 : out_text.c_str());
  return v;
}

// simple symmetric graph (no self loops / parallel edges when `simple`) with weights
struct UG { uint32_t n; std::vector<std::array<uint32_t, 3>> e; };   // u < v, weight
static UG gen_undirected(int maxn, bool simple, int maxw) {
  UG g; g.n = (uint32_t)wl_range(1, maxn);
  int shape = (int)wl_range(0, 3);
  std::set<std::pair<uint32_t, uint32_t>> seen;
  size_t target = shape == 0 ? (size_t)wl_range(0, 2 * g.n) : shape == 1 ? (size_t)wl_range(g.n, 4 * g.n) : (size_t)wl_range(0, g.n);
  for (size_t k = 0; k < target && g.n > 1; k++) {
    uint32_t a = (uint32_t)wl_range(0, g.n - 1), b = (uint32_t)wl_range(0, g.n - 1);
    if (shape == 2) { a = (uint32_t)wl_range(0, std::min<uint32_t>(g.n - 1, 3)); }          // hubs
    if (shape == 3) { uint32_t half = g.n / 2 ? g.n / 2 : 1; a %= half; b %= half; }          // leaves the upper half isolated: disconnected
    if (a == b && simple) continue;
    if (a > b) std::swap(a, b);
    if (simple && !seen.insert({a, b}).second) continue;
    g.e.push_back({a, b, (uint32_t)wl_range(wl_chance(10) ? 0 : 1, maxw)});
  }
  return g;
}
static gr::Model to_model(const UG& g, bool symmetric) {
  gr::Model m; m.n = g.n;
  std::vector<gr::Edge> es;
  for (auto& x : g.e) { es.push_back({x[0], x[1], x[2]}); if (symmetric && x[0] != x[1]) es.push_back({x[1], x[0], x[2]}); }
  std::stable_sort(es.begin(), es.end(), [](auto& a, auto& b) { return a.src != b.src ? a.src < b.src : a.dst < b.dst; });
  m.edges = es; m.end.assign(m.n, 0);
  for (auto& e : m.edges) m.end[e.src]++;
  for (uint32_t i = 1; i < m.n; i++) m.end[i] += m.end[i - 1];
  return m;
}
static std::vector<std::string> args;
static int run_app(const char* name) {
  std::vector<char*> argv; for (auto& a : args) argv.push_back((char*)a.c_str()); argv.push_back(nullptr);
  std::string cmd; for (auto& a : args) cmd += a + " ";
  vsim_note("cmdline", "%s", cmd.c_str());
  vsim_plain_preempt_window(1);
  int rc = app_main((int)args.size(), argv.data());
  vsim_plain_preempt_window(0);
  slurp();
  if (rc) vsim_fail("c20.exit", "%s returned %d", name, rc);
  return rc;
}

int main() {
  int cap = tier() ? 16 : 8;
  int maxT = (int)vsim_param("maxthreads", 1, cap);
  Machine mc = draw_machine(maxT);
  int threads = (int)vsim_param("threads", 1, mc.hw);
  vsim_enable_fault(VF_CAS_WEAK, 0.005, 0.1);
  vsim_enable_fault(VF_PLAIN_PREEMPT, 0.02, 0.6);   // plain shared data of the library (behind locks, in shared helper state) becomes preemptible
  vsim_enable_fault(VF_COND_SPURIOUS, 0.02, 0.2);
  vsim_set_budget(40000000);
  std::string path = std::string(vsim_workdir()) + "/g.gr";
  char tbuf[16]; snprintf(tbuf, sizeof tbuf, "%d", threads);
  int maxn = tier() ? 80 : 40;
#if APP == 1 || APP == 2
  // ---------------- bfs / sssp on directed weighted graphs ----------------
  gr::Model m = gr::generate(maxn, false);
  for (auto& e : m.edges) e.data = (uint64_t)wl_range(wl_chance(10) ? 0 : 1, wl_chance(10) ? 100000 : 20);
  if (m.n == 0) { m.n = 1; m.end.assign(1, 0); }
  uint32_t src = (uint32_t)wl_range(0, m.n - 1);
  if (wl_chance(12)) {
    // big hub: the tiled variants split the edges of a node into tiles of 256 (bfs) / 512 (sssp) edges; degrees around
    // one and two tiles, with leaves that are reachable through exactly one hub edge
    static const int degs[] = {255, 256, 257, 300, 511, 512, 513, 600, 770, 1025};
    int D = degs[wl_range(0, 9)] + (wl_chance(30) ? (int)wl_range(-3, 3) : 0);
    uint32_t hub = wl_chance(50) ? src : (uint32_t)wl_range(0, m.n - 1);
    std::vector<gr::Edge> es(m.edges.begin(), m.edges.end());
    uint32_t first_leaf = m.n; m.n += (uint32_t)D;
    for (int i = 0; i < D; i++) es.push_back(gr::Edge{hub, first_leaf + (uint32_t)i, (uint64_t)wl_range(1, 20)});
    if (hub != src) es.push_back(gr::Edge{src, hub, (uint64_t)wl_range(1, 20)});
    for (int i = 0; i < 6; i++) es.push_back(gr::Edge{first_leaf + (uint32_t)wl_range(0, D - 1), (uint32_t)wl_range(0, m.n - 1), (uint64_t)wl_range(1, 20)});
    std::stable_sort(es.begin(), es.end(), [](auto& a, auto& b) { return a.src < b.src; });
    m.edges = es; m.end.assign(m.n, 0);
    for (auto& e : m.edges) m.end[e.src]++;
    for (uint32_t i = 1; i < m.n; i++) m.end[i] += m.end[i - 1];
    vsim_probe("big_hub");
  }
  gr::write_file(path, gr::encode(m, 1, 4));
  std::vector<uint64_t> dist(m.n, ~0ull);
  std::vector<std::vector<std::pair<uint32_t, uint64_t>>> adj(m.n);
  for (auto& e : m.edges) adj[e.src].push_back({e.dst, APP == 1 ? 1 : e.data});
  { std::priority_queue<std::pair<uint64_t, uint32_t>, std::vector<std::pair<uint64_t, uint32_t>>, std::greater<>> pq; dist[src] = 0; pq.push({0, src});
    while (!pq.empty()) { auto [d, u] = pq.top(); pq.pop(); if (d > dist[u]) continue; for (auto& [v, w] : adj[u]) if (d + w < dist[v]) { dist[v] = d + w; pq.push({dist[v], v}); } } }
  long long visited = 0, mx = 0, sum = 0; for (auto d : dist) if (d != ~0ull) { visited++; mx = std::max<long long>(mx, (long long)d); sum += (long long)d; }
  char sbuf[16]; snprintf(sbuf, sizeof sbuf, "%u", src);
#if APP == 1
  static const char* algos[] = {"AsyncTile", "Async", "SyncTile", "Sync"};
  int a = (int)vsim_param("algo", 0, 3); bool serial = vsim_param("serial", 0, 4) == 0;
  vsim_note("component", "app=bfs algo=%s%s", algos[a], serial ? " SERIAL" : "");
  args = {"bfs", path, std::string("-startNode=") + sbuf, std::string("-reportNode=") + sbuf, std::string("-algo=") + algos[a], std::string("-exec=") + (serial ? "SERIAL" : "PARALLEL"), std::string("-t=") + tbuf};
  run_app("bfs");
#else
  static const char* algos[] = {"deltaTile", "deltaStep", "deltaStepBarrier", "serDeltaTile", "serDelta", "dijkstraTile", "dijkstra", "topo", "topoTile"};
  int a = (int)vsim_param("algo", 0, 8);
  int delta = (int)vsim_param("delta", 0, 6);
  vsim_note("component", "app=sssp algo=%s", algos[a]);
  char dbuf[16]; snprintf(dbuf, sizeof dbuf, "%d", delta);
  args = {"sssp", path, std::string("-startNode=") + sbuf, std::string("-reportNode=") + sbuf, std::string("-algo=") + algos[a], std::string("-delta=") + dbuf, std::string("-t=") + tbuf};
  run_app("sssp");
#endif
  long long gv = need_num("app", "# visited nodes is"), gm = need_num("app", "Max distance is"), gs = need_num("app", "Sum of visited distances is");
  if (gv != visited || gm != mx || gs != sum) vsim_fail("c20.result", "%s from node %u on %u nodes / %zu edges with %d threads: visited/max/sum = %lld/%lld/%lld, reference (Dijkstra) %lld/%lld/%lld", args[0].c_str(), src, m.n, m.edges.size(), threads, gv, gm, gs, visited, mx, sum);
#elif APP == 3 || APP == 4 || APP == 5 || APP == 6 || APP == 7
  // ---------------- symmetric inputs ----------------
  bool simple = APP != 3 && APP != 7 ? true : wl_chance(50);
  UG g = gen_undirected(APP == 6 ? 16 : maxn, simple, 50);
  if (APP == 7 && wl_chance(50)) {
    // contended components with a unique MST: few nodes, many edges, pairwise distinct weights (with the default small
    // weight range most wrong choices of a "lightest" edge are masked by ties)
    // (the loops hand out nodes / work items in chunks of 16, so threads only meet on a component with clearly more than 16 nodes)
    g.n = (uint32_t)wl_range(20, tier() ? 160 : 90); g.e.clear();
    { std::set<std::pair<uint32_t, uint32_t>> seen; size_t target = (size_t)wl_range(g.n, 4 * g.n);
      for (size_t k = 0; k < target; k++) { uint32_t a = (uint32_t)wl_range(0, g.n - 1), b = wl_chance(50) ? (a + 1 + (uint32_t)wl_range(0, 3)) % g.n : (uint32_t)wl_range(0, g.n - 1); if (a == b) continue; if (a > b) std::swap(a, b); if (seen.insert({a, b}).second) g.e.push_back({a, b, 0}); } }
    std::vector<uint32_t> ws(g.e.size()); for (size_t i = 0; i < ws.size(); i++) ws[i] = (uint32_t)(3 * i + 1 + wl_range(0, 2));
    for (size_t i = ws.size(); i > 1; i--) std::swap(ws[i - 1], ws[wl_range(0, (long)i - 1)]);
    for (size_t i = 0; i < ws.size(); i++) g.e[i][2] = ws[i];
    vsim_probe("distinct_weights");
  }
  if (APP == 7) { for (auto& x : g.e) if (!x[2]) x[2] = 1; if (g.e.empty()) { if (g.n < 2) g.n = 2; g.e.push_back({0, 1, 3}); } }   // Boruvka requires at least one edge and positive weights
  gr::Model m = to_model(g, true);
  gr::write_file(path, gr::encode(m, 1, 4));
  std::vector<uint32_t> par(g.n); std::iota(par.begin(), par.end(), 0);
  std::function<uint32_t(uint32_t)> find = [&](uint32_t x) { while (par[x] != x) x = par[x] = par[par[x]]; return x; };
  for (auto& x : g.e) par[find(x[0])] = find(x[1]);
  std::map<uint32_t, int> comp; for (uint32_t i = 0; i < g.n; i++) comp[find(i)]++;
#if APP == 3
  static const char* algos[] = {"Async", "EdgeAsync", "EdgetiledAsync", "BlockedAsync", "LabelProp", "Serial", "Sync", "Afforest", "EdgeAfforest", "EdgetiledAfforest"};
  int a = (int)vsim_param("algo", 0, 9);
  vsim_note("component", "app=connected-components algo=%s", algos[a]);
  args = {"connected-components", path, "-symmetricGraph", std::string("-algo=") + algos[a], std::string("-t=") + tbuf};
  run_app("connected-components");
  long long total = need_num("cc", "Total components"), nontriv = need_num("cc", "Number of non-trivial components");
  long long et = (long long)comp.size(), en = 0; for (auto& c : comp) if (c.second > 1) en++;
  if (total != et || nontriv != en) vsim_fail("c20.result", "connected-components -algo=%s on %u nodes / %zu undirected edges with %d threads: %lld components (%lld non-trivial), union-find says %lld (%lld)", algos[a], g.n, g.e.size(), threads, total, nontriv, et, en);
#elif APP == 4
  int k = (int)vsim_param("k", 1, 5); int a = (int)vsim_param("algo", 0, 1);
  vsim_note("component", "app=k-core algo=%s", a ? "Sync" : "Async");
  char kb[16]; snprintf(kb, sizeof kb, "%d", k);
  args = {"k-core", path, "-symmetricGraph", std::string("-algo=") + (a ? "Sync" : "Async"), std::string("-kcore=") + kb, std::string("-t=") + tbuf};
  run_app("k-core");
  std::vector<int> deg(g.n, 0); std::vector<std::vector<uint32_t>> nb(g.n);
  for (auto& x : g.e) { deg[x[0]]++; deg[x[1]]++; nb[x[0]].push_back(x[1]); nb[x[1]].push_back(x[0]); }
  std::vector<bool> dead(g.n, false); bool ch = true;
  while (ch) { ch = false; for (uint32_t i = 0; i < g.n; i++) if (!dead[i] && deg[i] < k) { dead[i] = true; ch = true; for (auto v : nb[i]) deg[v]--; } }
  long long alive = 0; for (uint32_t i = 0; i < g.n; i++) alive += !dead[i];
  char key[64]; snprintf(key, sizeof key, "Number of nodes in the %d-core is", k);
  long long got = need_num("k-core", key);
  if (got != alive) vsim_fail("c20.result", "k-core k=%d on %u nodes / %zu edges with %d threads: %lld nodes in the core, peeling says %lld", k, g.n, g.e.size(), threads, got, alive);
#elif APP == 5
  static const char* algos[] = {"nodeiterator", "edgeiterator", "orderedCount"};
  int a = (int)vsim_param("algo", 0, 2);
  vsim_note("component", "app=triangle-counting algo=%s", algos[a]);
  args = {"triangle-counting", path, "-symmetricGraph", std::string("-algo=") + algos[a], std::string("-t=") + tbuf};
  run_app("triangle-counting");
  std::set<std::pair<uint32_t, uint32_t>> es; for (auto& x : g.e) es.insert({x[0], x[1]});
  long long tri = 0;
  for (uint32_t a1 = 0; a1 < g.n; a1++) for (uint32_t b = a1 + 1; b < g.n; b++) if (es.count({a1, b})) for (uint32_t c = b + 1; c < g.n; c++) if (es.count({a1, c}) && es.count({b, c})) tri++;
  long long got; if (!find_num("Num Triangles", got) && !find_num("NumTriangles", got)) vsim_fail("c20.output", "triangle count line not found");
  if (got != tri) vsim_fail("c20.result", "triangle-counting -algo=%s on %u nodes / %zu edges with %d threads: %lld triangles, brute force %lld", algos[a], g.n, g.e.size(), threads, got, tri);
#elif APP == 6
  static const char* algos[] = {"serial", "pull", "nondet", "detBase", "edgetiledprio", "prio"};
  int a = (int)vsim_param("algo", 0, 5);
  vsim_note("component", "app=independent-set algo=%s", algos[a]);
  args = {"independent-set", path, "-symmetricGraph", std::string("-algo=") + algos[a], std::string("-t=") + tbuf};
  run_app("independent-set");
  long long got = need_num("mis", "Cardinality of maximal independent set");
  // every maximal independent set has a size in [minMaximal, maxIndependent]; enumerate (n <= 16)
  std::vector<uint32_t> nbm(g.n, 0); for (auto& x : g.e) { nbm[x[0]] |= 1u << x[1]; nbm[x[1]] |= 1u << x[0]; }
  std::set<int> sizes;
  for (uint32_t s = 0; s < (1u << g.n); s++) {
    bool ind = true, maximal = true;
    for (uint32_t i = 0; i < g.n && ind; i++) if ((s >> i & 1) && (nbm[i] & s)) ind = false;
    if (!ind) continue;
    for (uint32_t i = 0; i < g.n && maximal; i++) if (!(s >> i & 1) && !(nbm[i] & s)) maximal = false;
    if (maximal) sizes.insert(__builtin_popcount(s));
  }
  if (!sizes.count((int)got)) vsim_fail("c20.result", "independent-set -algo=%s on %u nodes / %zu edges with %d threads reports cardinality %lld, but no maximal independent set of that size exists (possible sizes %d..%d)", algos[a], g.n, g.e.size(), threads, got, *sizes.begin(), *sizes.rbegin());
#else
  vsim_note("component", "app=boruvka");
  args = {"minimum-spanningtree", path, "-symmetricGraph", std::string("-t=") + tbuf};
  run_app("boruvka");
  auto es = g.e; std::sort(es.begin(), es.end(), [](auto& a, auto& b) { return a[2] < b[2]; });
  std::iota(par.begin(), par.end(), 0); long long w = 0;
  for (auto& x : es) { uint32_t a = find(x[0]), b = find(x[1]); if (a != b) { par[a] = b; w += x[2]; } }
  long long got = need_num("boruvka", "MST weight");
  if (got != w) vsim_fail("c20.result", "Boruvka on %u nodes / %zu edges with %d threads: MST weight %lld, Kruskal says %lld", g.n, g.e.size(), threads, got, w);
#endif
#endif
  vsim_probe("app_runs");
  return 0;
}
